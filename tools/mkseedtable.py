#!/usr/bin/env python3
"""Regenerates the table of independently seeded changes in DESIGN.md (between the SEEDED-TABLE markers) from
seeded/*/meta.json and, if present, seeded/RESULTS.json (last regression run of tools/seeded_regress.py)."""
import json
import os
import re

HERE = os.path.dirname(os.path.dirname(os.path.abspath(__file__)))


def main():
    res = {}
    rp = os.path.join(HERE, "seeded", "RESULTS.json")
    if os.path.exists(rp):
        for r in json.load(open(rp))["results"]:
            res[r["id"]] = r["status"]
    rows = []
    ids = sorted(x for x in os.listdir(os.path.join(HERE, "seeded")) if os.path.isdir(os.path.join(HERE, "seeded", x)))
    for sid in ids:
        m = json.load(open(os.path.join(HERE, "seeded", sid, "meta.json")))
        what = " ".join(str(m.get("what_changed", "")).split())
        what = (what[:150] + "...") if len(what) > 150 else what
        what = what.replace("|", "/")
        note = " ".join(str(m.get("note", "")).split()).replace("|", "/")
        rows.append(f"| {sid} | {str(m.get('file', '')).replace('|', '/')[:80]} | {what} | {', '.join(m.get('detected_by', []))} | {note} | {res.get(sid, '')} |")
    table = ["| seeded change | file | what was changed (author's words, truncated) | detected by | result when first tried / what was strengthened | last regression run |",
             "|---|---|---|---|---|---|"] + rows
    p = os.path.join(HERE, "DESIGN.md")
    s = open(p).read()
    a, b = "<!-- SEEDED-TABLE-BEGIN -->", "<!-- SEEDED-TABLE-END -->"
    if a not in s:
        raise SystemExit("markers missing in DESIGN.md")
    s = re.sub(re.escape(a) + r".*?" + re.escape(b), lambda _: a + "\n" + "\n".join(table) + "\n" + b, s, flags=re.S)
    open(p, "w").write(s)
    print(len(rows), "rows")


if __name__ == "__main__":
    main()
