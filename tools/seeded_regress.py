#!/usr/bin/env python3
"""Re-runs the kept seeded changes against the current checks.

  tools/seeded_regress.py [--only C09-4,C11-5] [--workers 3] [--jobs 5] [--tier quick] [--seeds 1] [--out seeded/RESULTS.json]

For every seeded/<id>/: copy the repository's working tree to a scratch directory (outside /repo and /verif), apply
patch.diff, run the checks listed in meta.json "detected_by" (VERIF_REPO=<copy>, fail-fast) at each seed, remove the
copy.  "caught" = some listed check exits 1 with a VIOLATION line at every seed tried.  Nothing is ever applied to
/repo itself.
"""
import argparse
import json
import os
import shutil
import subprocess
import sys
import tempfile
from concurrent.futures import ThreadPoolExecutor

VERIF = os.path.dirname(os.path.dirname(os.path.abspath(__file__)))
REPO = "/repo"


def run_one(sid, jobs, tier, seeds):
    d = os.path.join(VERIF, "seeded", sid)
    meta = json.load(open(os.path.join(d, "meta.json")))
    checks = meta.get("detected_by") or [meta["property"]]
    if meta.get("obsolete"):
        return {"id": sid, "checks": checks, "runs": [], "status": "obsolete (no longer breaks the property on the current tree)"}
    tmp = tempfile.mkdtemp(prefix="vseedr_", dir=os.environ.get("VERIF_SCRATCH", "/tmp"))
    rec = {"id": sid, "checks": checks, "runs": []}
    try:
        dst = os.path.join(tmp, "repo")
        shutil.copytree(REPO, dst, ignore=shutil.ignore_patterns(".git", "__pycache__", "*.pyc", ".pytest_cache"))
        r = subprocess.run(["git", "apply", os.path.join(d, "patch.diff")], cwd=dst, capture_output=True, text=True)
        if r.returncode != 0:
            rec["status"] = "patch-does-not-apply"
            rec["detail"] = r.stderr[-300:]
            return rec
        env = dict(os.environ, VERIF_REPO=dst, VERIF_FAILFAST="1", VERIF_JOBS=str(jobs), PYTHONDONTWRITEBYTECODE="1")
        ok_all = True
        for seed in seeds:
            env["VERIF_SEED"] = str(seed)
            hit = None
            for c in checks:
                r = subprocess.run([os.path.join(VERIF, "vcheck"), c, "--tier", tier, "--no-evidence", "--no-replay-file"],
                                   capture_output=True, text=True, env=env)
                sig = [ln for ln in r.stdout.splitlines() if ln.startswith("violation:")][:1]
                rec["runs"].append({"seed": seed, "check": c, "rc": r.returncode, "signature": sig})
                if r.returncode == 1:
                    hit = c
                    break
            ok_all = ok_all and hit is not None
        rec["status"] = "caught" if ok_all else "MISSED"
        return rec
    finally:
        shutil.rmtree(tmp, ignore_errors=True)


def main():
    ap = argparse.ArgumentParser()
    ap.add_argument("--only")
    ap.add_argument("--workers", type=int, default=3)
    ap.add_argument("--jobs", type=int, default=5)
    ap.add_argument("--tier", default="quick")
    ap.add_argument("--seeds", default="1")
    ap.add_argument("--out", default=os.path.join(VERIF, "seeded", "RESULTS.json"))
    a = ap.parse_args()
    ids = sorted(x for x in os.listdir(os.path.join(VERIF, "seeded")) if os.path.isdir(os.path.join(VERIF, "seeded", x)))
    if a.only:
        ids = [x for x in ids if x in set(a.only.split(","))]
    seeds = [int(x) for x in a.seeds.split(",")]
    res = []
    with ThreadPoolExecutor(max_workers=a.workers) as ex:
        for rec in ex.map(lambda s: run_one(s, a.jobs, a.tier, seeds), ids):
            res.append(rec)
            last = rec["runs"][-1] if rec.get("runs") else {}
            print(rec["id"], rec["status"], last.get("check", ""), (last.get("signature") or [""])[0][:110], flush=True)
    head = subprocess.run(["git", "-C", REPO, "rev-parse", "--short", "HEAD"], capture_output=True, text=True).stdout.strip()
    with open(a.out, "w") as f:
        json.dump({"repo_head": head, "tier": a.tier, "seeds": seeds, "results": res}, f, indent=1)
        f.write("\n")
    missed = [r["id"] for r in res if r["status"] != "caught" and not r["status"].startswith("obsolete")]
    print(f"{len(res) - len(missed)}/{len(res)} caught; not caught: {missed}")
    return 0


if __name__ == "__main__":
    sys.exit(main())
