#!/usr/bin/env python3
"""Systematic sensitivity measurement: syntactic mutants of the anchored source files.

  tools/mutants.py list   [--files f1,f2]                -> prints the mutant table (id, file:line, description)
  tools/mutants.py run    [--files ...] [--ids a,b] [--workers 4] [--jobs 4] [--out mutation/results.jsonl]
                          [--sample N --sample-seed S] [--tier quick]

For every mutant: copy the repository's working tree to a scratch directory (outside /repo and /verif),
apply the one-token change, byte-compile, run the project's own test-suite (a mutant the 165 tests
already kill is of no interest: realistic breakage passes them), then run the quick checks of the
properties that anchor the mutated file (VERIF_REPO=<scratch>, VERIF_FAILFAST=1) until one reports a
VIOLATION.  The scratch copy is removed.  One JSON line per mutant is appended to --out:
  {"id", "file", "line", "desc", "status": "tests-kill" | "killed" | "survived" | "broken", "by": Cnn, "checks": [...], ...}
Survivors are then read by hand: equivalent mutants (no listed property is affected) or gaps.
"""
import argparse
import ast
import hashlib
import json
import os
import random
import shutil
import subprocess
import sys
import tempfile
from concurrent.futures import ThreadPoolExecutor

VERIF = os.path.dirname(os.path.dirname(os.path.abspath(__file__)))
REPO = os.environ.get("VERIF_REPO") or "/repo"
PY = "/venv/bin/python"

CMP = {ast.Lt: ("<", ["<=", ">"]), ast.LtE: ("<=", ["<", ">="]), ast.Gt: (">", [">=", "<"]),
       ast.GtE: (">=", [">", "<="]), ast.Eq: ("==", ["!="]), ast.NotEq: ("!=", ["=="])}
BIN = {ast.Add: ("+", ["-"]), ast.Sub: ("-", ["+"]), ast.Mult: ("*", ["/"]), ast.FloorDiv: ("//", ["/"]),
       ast.Div: ("/", ["*"])}
NAME_SWAP = {"min": "max", "max": "min", "any": "all", "all": "any", "ceil": "floor", "floor": "ceil"}


# the sv/ scripts are anchored by C20 for these functions only (the rest is command-line glue and plotting)
ONLY_FUNCS = {"sv/write_indel_files.py": {"cluster_indels", "write_indel_file"},
              "sv/molecule_indels.py": {"look_for_indels_in_breakage"},
              "sv/segment_indels.py": {"look_for_indels_in_breakage"}}


# unit-level checks first (cheap and specific), then the end-to-end ones; at most MAX_CHECKS per mutant
PRIORITY = ["C12", "C13", "C14", "C15", "C16", "C17", "C19", "C20", "C03", "C01", "C04", "C02", "C05", "C08", "C18",
            "C06", "C11", "C07", "C10", "C09"]
MAX_CHECKS = int(os.environ.get("VERIF_MUT_MAXCHECKS", "4"))


def file_props():
    m = {}
    with open(os.path.join(VERIF, "properties.jsonl")) as f:
        for line in f:
            p = json.loads(line)
            for fn in p["anchors"]["files"]:
                m.setdefault(fn, []).append(p["id"])
    return m


def _seg(src_lines, node):
    return (node.lineno, node.col_offset, node.end_lineno, node.end_col_offset)


def _between(text, lines_off, a_end, b_start):
    """source text between two (line, col) positions (1-based lines)."""
    s = lines_off[a_end[0] - 1] + a_end[1]
    e = lines_off[b_start[0] - 1] + b_start[1]
    return s, e, text[s:e]


def mutants_of(path, rel):
    text = open(path, encoding="utf-8").read()
    # col offsets are utf8 byte offsets; sources are ASCII in practice
    lines = text.split("\n")
    off = [0]
    for ln in lines:
        off.append(off[-1] + len(ln) + 1)
    tree = ast.parse(text)
    out = []

    def add(s, e, new, desc, lineno):
        if text[s:e] == new:
            return
        out.append({"file": rel, "line": lineno, "start": s, "end": e, "new": new,
                    "desc": f"{desc}: `{text[s:e]}` -> `{new}`"})

    def pos(n):
        return off[n.lineno - 1] + n.col_offset, off[n.end_lineno - 1] + n.end_col_offset

    for node in ast.walk(tree):
        if isinstance(node, ast.Compare):
            left = node.left
            for op, right in zip(node.ops, node.comparators):
                if type(op) in CMP:
                    s, e, mid = _between(text, off, (left.end_lineno, left.end_col_offset),
                                         (right.lineno, right.col_offset))
                    sym, repl = CMP[type(op)]
                    i = mid.find(sym)
                    if i >= 0 and mid.count(sym) == 1 or (i >= 0 and mid.strip(" ()\n\\") == sym):
                        for r in repl:
                            add(s + i, s + i + len(sym), r, "compare", node.lineno)
                left = right
        elif isinstance(node, ast.BinOp) and type(node.op) in BIN:
            if isinstance(node.left, ast.Constant) and isinstance(node.left.value, str):
                continue
            s, e, mid = _between(text, off, (node.left.end_lineno, node.left.end_col_offset),
                                 (node.right.lineno, node.right.col_offset))
            sym, repl = BIN[type(node.op)]
            stripped = mid.strip(" ()\n\\")
            if stripped == sym:
                i = mid.find(sym)
                for r in repl:
                    add(s + i, s + i + len(sym), r, "arith", node.lineno)
        elif isinstance(node, ast.AugAssign) and type(node.op) in (ast.Add, ast.Sub):
            s, e, mid = _between(text, off, (node.target.end_lineno, node.target.end_col_offset),
                                 (node.value.lineno, node.value.col_offset))
            sym = "+=" if isinstance(node.op, ast.Add) else "-="
            i = mid.find(sym)
            if i >= 0:
                add(s + i, s + i + 2, "-=" if sym == "+=" else "+=", "augassign", node.lineno)
        elif isinstance(node, ast.BoolOp):
            for a, b in zip(node.values, node.values[1:]):
                s, e, mid = _between(text, off, (a.end_lineno, a.end_col_offset), (b.lineno, b.col_offset))
                sym = "and" if isinstance(node.op, ast.And) else "or"
                i = mid.find(sym)
                if i >= 0 and mid.strip(" ()\n\\") == sym:
                    add(s + i, s + i + len(sym), "or" if sym == "and" else "and", "boolop", node.lineno)
        elif isinstance(node, ast.UnaryOp) and isinstance(node.op, ast.Not):
            s, e = pos(node)
            os_, oe = pos(node.operand)
            add(s, e, text[os_:oe], "drop-not", node.lineno)
        elif isinstance(node, ast.UnaryOp) and isinstance(node.op, ast.USub) and not isinstance(node.operand, ast.Constant):
            s, e = pos(node)
            os_, oe = pos(node.operand)
            add(s, e, text[os_:oe], "drop-minus", node.lineno)
        elif isinstance(node, ast.Constant) and not isinstance(node.value, (str, bytes)) and node.value is not None \
                and node.value is not Ellipsis:
            s, e = pos(node)
            v = node.value
            if isinstance(v, bool):
                add(s, e, "False" if v else "True", "bool", node.lineno)
            elif isinstance(v, int):
                add(s, e, str(v + 1), "const", node.lineno)
                if v != 0 or True:
                    add(s, e, str(v - 1) if v - 1 >= 0 else f"({v - 1})", "const", node.lineno)
            elif isinstance(v, float):
                add(s, e, repr(v * 2 if v else 1.0), "const", node.lineno)
        elif isinstance(node, ast.Call) and isinstance(node.func, ast.Name):
            fn = node.func.id
            if fn == "abs" and len(node.args) == 1:
                s, e = pos(node)
                a, b = pos(node.args[0])
                add(s, e, "(" + text[a:b] + ")", "drop-abs", node.lineno)
            elif fn in NAME_SWAP:
                s, e = pos(node.func)
                add(s, e, NAME_SWAP[fn], "call-swap", node.lineno)
            elif fn in ("sorted", "reversed", "int", "round") and len(node.args) == 1 and not node.keywords:
                s, e = pos(node)
                a, b = pos(node.args[0])
                add(s, e, "(" + text[a:b] + ")" if fn in ("int", "round") else "list(" + text[a:b] + ")",
                    "drop-" + fn, node.lineno)
        elif isinstance(node, ast.Call) and isinstance(node.func, ast.Attribute) and node.func.attr in NAME_SWAP:
            v = node.func
            e = off[v.end_lineno - 1] + v.end_col_offset
            add(e - len(v.attr), e, NAME_SWAP[v.attr], "call-swap", node.lineno)
        elif isinstance(node, ast.Subscript) and isinstance(node.slice, ast.Slice):
            sl = node.slice
            for part, nm in ((sl.lower, "lower"), (sl.upper, "upper")):
                if part is not None and not isinstance(part, ast.Constant):
                    s, e = pos(part)
                    add(s, e, "(" + text[s:e] + ") + 1", "slice-" + nm, node.lineno)
                    add(s, e, "(" + text[s:e] + ") - 1", "slice-" + nm, node.lineno)
        elif isinstance(node, ast.IfExp):
            s, e = pos(node.test)
            add(s, e, "not (" + text[s:e] + ")", "ifexp-negate", node.lineno)
        elif isinstance(node, (ast.If, ast.While)) and not isinstance(node.test, (ast.Compare, ast.BoolOp, ast.UnaryOp)):
            s, e = pos(node.test)
            if "__name__" not in text[s:e]:
                add(s, e, "not (" + text[s:e] + ")", "cond-negate", node.lineno)
        elif isinstance(node, ast.Continue):
            s, e = pos(node)
            add(s, e, "break", "continue-break", node.lineno)
        elif isinstance(node, ast.Break):
            s, e = pos(node)
            add(s, e, "continue", "break-continue", node.lineno)
    # enclosing function of every mutant (innermost)
    funcs = [(n.lineno, n.end_lineno, n.name) for n in ast.walk(tree)
             if isinstance(n, (ast.FunctionDef, ast.AsyncFunctionDef))]
    for m in out:
        best = None
        for a, b, name in funcs:
            if a <= m["line"] <= b and (best is None or a >= best[0]):
                best = (a, name)
        m["func"] = best[1] if best else "<module>"
    # de-duplicate, stable ids
    seen = set()
    res = []
    for m in sorted(out, key=lambda m: (m["start"], m["end"], m["new"])):
        k = (m["start"], m["end"], m["new"])
        if k in seen:
            continue
        seen.add(k)
        m["id"] = hashlib.sha1(f"{rel}:{m['line']}:{m['desc']}".encode()).hexdigest()[:10]
        res.append(m)
    return res


def all_mutants(files):
    fp = file_props()
    res = []
    for rel in sorted(fp):
        if files and rel not in files:
            continue
        path = os.path.join(REPO, rel)
        if not os.path.exists(path):
            continue
        for m in mutants_of(path, rel):
            if rel in ONLY_FUNCS and m["func"] not in ONLY_FUNCS[rel]:
                continue
            m["props"] = fp[rel]
            res.append(m)
    return res


def run_one(m, jobs, tier, extra_checks):
    d = tempfile.mkdtemp(prefix="vmut_", dir=os.environ.get("VERIF_SCRATCH", "/tmp"))
    rec = {k: m[k] for k in ("id", "file", "line", "func", "desc", "props")}
    try:
        dst = os.path.join(d, "repo")
        shutil.copytree(REPO, dst, ignore=shutil.ignore_patterns(".git", "__pycache__", "*.pyc", ".pytest_cache"))
        p = os.path.join(dst, m["file"])
        text = open(p, encoding="utf-8").read()
        open(p, "w", encoding="utf-8").write(text[:m["start"]] + m["new"] + text[m["end"]:])
        env = dict(os.environ, PYTHONDONTWRITEBYTECODE="1", PYTHONHASHSEED="0", OMP_NUM_THREADS="1")
        r = subprocess.run([PY, "-c", f"import ast,sys; ast.parse(open({p!r}).read())"], capture_output=True, env=env)
        if r.returncode != 0:
            rec["status"] = "broken"
            return rec
        try:
            r = subprocess.run([PY, "-m", "pytest", "-q", "-x", "-p", "no:cacheprovider", "--timeout=300"], cwd=dst,
                               capture_output=True, text=True, env=env, timeout=900)
        except subprocess.TimeoutExpired:
            rec["status"] = "tests-kill"
            rec["note"] = "test-suite timeout"
            return rec
        if r.returncode != 0:
            rec["status"] = "tests-kill"
            return rec
        rec["checks"] = []
        env.update(VERIF_REPO=dst, VERIF_FAILFAST="1", VERIF_JOBS=str(jobs))
        order = sorted(m["props"], key=lambda c: PRIORITY.index(c) if c in PRIORITY else 99)[:MAX_CHECKS]
        for c in order + [x for x in extra_checks if x not in order]:
            try:
                r = subprocess.run([os.path.join(VERIF, "vcheck"), c, "--tier", tier, "--no-evidence", "--no-replay-file"],
                                   capture_output=True, text=True, env=env, timeout=3600)
            except subprocess.TimeoutExpired:
                rec["checks"].append([c, "timeout"])
                continue
            rec["checks"].append([c, r.returncode])
            if r.returncode == 1:
                rec["status"] = "killed"
                rec["by"] = c
                rec["signature"] = [ln for ln in r.stdout.splitlines() if ln.startswith("violation:")][:2]
                return rec
            if r.returncode == 2:
                rec.setdefault("harness_errors", []).append([c, r.stdout[-600:]])
        rec["status"] = "survived"
        return rec
    finally:
        shutil.rmtree(d, ignore_errors=True)


def main():
    ap = argparse.ArgumentParser()
    ap.add_argument("cmd", choices=["list", "run"])
    ap.add_argument("--files")
    ap.add_argument("--ids")
    ap.add_argument("--workers", type=int, default=4)
    ap.add_argument("--jobs", type=int, default=4)
    ap.add_argument("--tier", default="quick")
    ap.add_argument("--out", default=os.path.join(VERIF, "mutation", "results.jsonl"))
    ap.add_argument("--sample", type=int)
    ap.add_argument("--sample-seed", type=int, default=1)
    ap.add_argument("--extra", default="", help="comma list of checks to try after the anchoring ones")
    a = ap.parse_args()
    ms = all_mutants(set(a.files.split(",")) if a.files else None)
    if a.ids:
        keep = set(a.ids.split(","))
        ms = [m for m in ms if m["id"] in keep]
    if a.sample and a.sample < len(ms):
        ms = random.Random(a.sample_seed).sample(ms, a.sample)
    if a.cmd == "list":
        for m in ms:
            print(m["id"], f"{m['file']}:{m['line']}", m["func"], ",".join(m["props"]), m["desc"].replace("\n", " "))
        print(len(ms), "mutants", file=sys.stderr)
        return
    done = set()
    if os.path.exists(a.out):
        for ln in open(a.out):
            try:
                done.add(json.loads(ln)["id"])
            except Exception:  # noqa: BLE001
                pass
    todo = [m for m in ms if m["id"] not in done]
    os.makedirs(os.path.dirname(a.out), exist_ok=True)
    extra = [x for x in a.extra.split(",") if x]
    print(f"{len(todo)} mutants to run ({len(done)} already in {a.out})", flush=True)
    with ThreadPoolExecutor(max_workers=a.workers) as ex, open(a.out, "a") as out:
        for rec in ex.map(lambda m: run_one(m, a.jobs, a.tier, extra), todo):
            out.write(json.dumps(rec, sort_keys=True) + "\n")
            out.flush()
            print(rec["id"], rec["status"], rec.get("by", ""), rec["file"], rec["line"], rec["desc"][:90], flush=True)


if __name__ == "__main__":
    main()
