#!/bin/sh
# tools/verify_seed.sh <dir with patchK.diff demoK.py> <K> "<checks to run, e.g. C01 C15>" [tier]
# Confirms a seeded change in a scratch worktree (outside /repo and /verif): clean demo passes, patch applies,
# test-suite passes, demo fails; then runs the given checks against the patched copy.  Removes the worktree.
D=$1; K=$2; CHECKS=$3; TIER=${4:-quick}
W=$(mktemp -d /tmp/vseed_XXXXXX); rmdir $W
git -C /repo worktree add -q --detach $W HEAD || exit 3
trap 'git -C /repo worktree remove --force $W >/dev/null 2>&1' EXIT
cd $W
/venv/bin/python $D/demo$K.py >/dev/null 2>&1; echo "demo on clean tree: rc=$? (want 0)"
git apply $D/patch$K.diff || { echo "PATCH DOES NOT APPLY"; exit 3; }
/venv/bin/python -m pytest -q -p no:cacheprovider -x 2>&1 | tail -1
/venv/bin/python $D/demo$K.py >/tmp/vseed_demo.out 2>&1; echo "demo on patched tree: rc=$? (want != 0)"; tail -2 /tmp/vseed_demo.out
for c in $CHECKS; do
  out=$(cd /verif && VERIF_REPO=$W ./vcheck $c --no-evidence --tier $TIER 2>&1); rc=$?
  echo "[$c] rc=$rc"; echo "$out" | grep -E "^violation|HARNESS" | head -4
done
