#!/usr/bin/env python3
"""Regenerates MANIFEST.json from the table below (keeps it schema-valid at all times)."""
import json
import os
import sys

HERE = os.path.dirname(os.path.dirname(os.path.abspath(__file__)))

CHECKS = {
    "C01": ("valid_matching invariant over Aligner.align candidates (ladders of seed peaks, junction and centre-triple cases), one Aligner reused over a molecule and its fragments, rows out of the unit-level first/second-pass join, every record of every file of every mode and every dispatched candidate; CLI sample equal to in-process; a 33 000-36 000-label reference (label numbers above 32 767)",
            "property-based testing (Hypothesis): invariant recomputed from file text and harness maps; CLI differential"),
    "C02": ("every record of every file of generated end-to-end runs (4 modes, both strands, second-pass records, offset queries) compared field by field with values recomputed from the CMAP text the harness wrote; a 33 000-36 000-label reference (label numbers above 32 767); a listed end label must be a label of the input map",
            "property-based testing (Hypothesis): invariant recomputed from raw inputs via independent parser"),
    "C04": ("every candidate, result row and Confidence cell of generated runs and of unit-level Aligner.align calls re-scored from harness maps, seed peak and the harness' copy of -sp/-dp/-su/-d; single-seed candidates tied to -ms/-bs through the C13 reference scan",
            "property-based testing (Hypothesis): recomputation + reference-model differential"),
    "C05": ("one-record-per-query invariant over all files and modes; seed selection and best-candidate choice re-derived from the dispatched messages (tie-tolerant); 'best' mode query set and order compared with 'separate' mode; 70-200 reference maps with the query's pattern on both sides of map 64",
            "property-based testing (Hypothesis): invariant + reference selection over recorded candidates"),
    "C06": ("planted noise-free interior windows (15-45 labels, both strands, offsets, all modes) must be reported with exactly the planted pairs, '<k>M' and offsets <= 200 bp; self-similar windows discarded by a stated guard",
            "property-based testing (Hypothesis): metamorphic relation with known placement"),
    "C07": ("degenerate-heavy inputs x 4 modes x the help-allowed parameter space run in-process and through the CLI; crashes bucketed by innermost repository frame, files parsed independently and read back with the project's XmapReader, unalignable queries removed and outputs compared; a 33 000-36 000-label reference with molecules below, across and above label 32 767",
            "property-based testing / fuzzing (Hypothesis): crash + format oracle, round-trip through project reader, metamorphic removal"),
    "C09": ("real CLI with real process pool: -c 1 unperturbed run vs -c in 1..16 with harness-owned completion orders (per-query delays injected by a launcher in the child) and a drawn PYTHONHASHSEED per run; inputs carry molecules whose two second-pass fragments score exactly alike; byte comparison of all files",
            "property-based testing (Hypothesis) with schedule perturbation: differential between schedules"),
    "C10": ("base run vs runs on transformed inputs: query subsets, added queries, permuted molecules, shuffled rows, -qId/-rId vs physically restricted files; records compared per query",
            "property-based testing (Hypothesis): differential / metamorphic (restriction, permutation)"),
    "C03": ("exhaustive enumeration of every valid matching on an 8x8 (quick) / 10x10 (thorough) grid in both orientations, random matchings up to 300 pairs, and every record of generated end-to-end runs; HitEnum replayed from the first pair",
            "exhaustive small-domain enumeration + Hypothesis, round-trip (replay) oracle"),
    "C08": ("the same generated input run in all four output modes; files compared between modes, joined records checked against their parts from file text, maxDifference boundary probed adaptively; AlignmentResults.resolve driven directly on a first-pass row and the second-pass row of its own fragment (joined => justified, subset of / equal to the valid union, parts not mutated); unit-level join re-resolved at maxDifference = floor/ceil of the actual (one-decimal) reference gap",
            "property-based testing (Hypothesis): differential between output modes + structural relation joined/parts"),
    "C11": ("lattice inputs commensurate with both correlation resolutions run as given and with every query mirrored ('separate' mode); records compared under the mirror map when seeds correspond and the best candidate is unique; chainer/join score compared between ascending and descending query label numbers",
            "property-based testing (Hypothesis): metamorphic relation (mirror image)"),
    "C15": ("segment lists produced from real label data by ladders of 2-8 seed peaks resolved as a list and pairwise; identity-level comparison of input and output positions, shared-label / crossing / removed-only-in-overlap clauses; junction cases whose first segment runs over 250-520 labels",
            "property-based testing (Hypothesis): invariant over input/output of the resolver"),
    "C17": ("generated CMAP text (shuffled rows, permuted/extra columns, label-less molecules, id filters) read with readQueries/readReferences and compared with the harness model; trim laws on every map; the reference and query maps a Program built from the command line holds (two files or one file in both roles, -rId/-qId); block layouts of 10^5-row files in which a requested molecule's rows lie in distant blocks",
            "property-based testing (Hypothesis): reference model of the file text"),
    "C18": ("every file of generated end-to-end runs and unit-level writer output read back with the project's reader and compared with the independently parsed text and the harness maps; files written for a 33 000-36 000-label reference",
            "property-based testing (Hypothesis): round-trip writer -> reader"),
    "C19": ("generated pairs of alignment sets with colliding keys, duplicated query labels and derived second sets; key partition, bounds, reflexivity and swap symmetry of AlignmentComparer.compare; the compare_alignments program on generated simulation-data and XMAP files (a file against itself, two files in both orders)",
            "property-based testing (Hypothesis): algebraic laws"),
    "C20": ("generated sorted call lists around the blur distance within and across chromosomes through cluster_indels and write_indel_file (parsed back); generated maps/alignments/breakpoints through both indel finders with Length/type recomputed from harness maps",
            "property-based testing (Hypothesis): conservation laws + recomputation"),
    "C12": ("exhaustive small label lattices (all multisets, seed offsets, strands, shifts), Hypothesis cases with planted boundary labels and sequences of calls on one engine (molecule, its fragments, other strand, other maps with the same ids) against an independent model of window, partition, order, offsets and mutual-nearest pairing; atheris campaign in the thorough tier; queries of 1000-4100 labels (more than 1024 / 2048 / 4096 reference labels in one window)",
            "exhaustive small-domain enumeration + Hypothesis, reference model"),
    "C13": ("exhaustive enumeration of all score sequences up to length 6 (quick) / 8 (thorough) over {-3..3} x 20 threshold pairs plus Hypothesis-generated long realistic sequences, each compared with a reference scan written from the statement and with the statement's validity clauses",
            "exhaustive small-domain enumeration + Hypothesis, reference-model differential"),
    "C14": ("exhaustive enumeration of every pair of short segments with every overlap on 1 bp and 0.5 bp grids, Hypothesis-generated segment sets (<=8 quick / <=12 thorough, 10/3/1/0.5 bp grids) with brute-force enumeration of every admissible sequence, one chainer reused over several sets, larger sets against an independent DP; the minus-infinity rule asserted in both directions against the half-overlap rule recomputed from coordinates",
            "property-based testing (Hypothesis) with brute-force optimum oracle"),
    "C16": ("exhaustive label/resolution/start/end grid and all bit vectors up to length 10 for blur, plus Hypothesis cases, against a reference model; peak selection against top-N multisets; 40-520 correlations (up to ~3000 candidate seeds) with ties at the cut",
            "exhaustive small-domain enumeration + Hypothesis, reference model"),
}

NOT_YET = {}

LEVEL_NOTE = ("exploration: held on the generated / enumerated cases only; trusted: the harness' own models and parsers, "
              "numpy/scipy/pandas, the in-process substitution of the parallel map (cross-checked against the CLI in C01/C07/C09)")


def main():
    props = [json.loads(l) for l in open(os.path.join(HERE, "properties.jsonl"))]
    checks = []
    na = []
    for p in props:
        pid = p["id"]
        if pid in CHECKS and os.path.exists(os.path.join(HERE, "checks", pid.lower() + ".py")):
            text, tech = CHECKS[pid]
            checks.append({
                "property_id": pid,
                "quick_cmd": f"./vcheck {pid} --tier quick",
                "thorough_cmd": f"./vcheck {pid} --tier thorough",
                "evidence_file": f"evidence/{pid}.json",
                "replay_cmd_template": f"./vcheck {pid} --replay {{path}}",
                "engine": "vcheck",
                "level_claimed": {"category": "exploration", "text": text, "design_ref": f"DESIGN.md section 3, {pid}"},
                "level_note": LEVEL_NOTE,
                "technique": tech,
            })
        else:
            na.append({"property_id": pid, "reason": NOT_YET.get(pid, "check not built yet in this round (planned in DESIGN.md section 3); not claimed until it runs quietly on the unchanged tree")})
    man = {
        "version": 1,
        "setup_cmd": "(/venv/bin/python -c 'import hypothesis' 2>/dev/null || /venv/bin/pip install --no-index --find-links /opt/veriftools/wheels hypothesis) && "
                     "(test -d /verif/.deps/atheris || /venv/bin/pip install -q --no-index --find-links /opt/veriftools/wheels --target /verif/.deps atheris || "
                     "echo 'atheris not installable: the coverage-guided sub-checks will report atheris-unavailable and be skipped')",
        "hooks": {"guard": "COMA_VERIF",
                  "enable": "no repository hooks are needed: checks import /repo's working tree (or $VERIF_REPO) and observe through the project's own Extension mechanism; the guard variable is unused",
                  "baseline_off_cmd": "cd /repo && /venv/bin/python -m pytest -ra -q -p no:cacheprovider --timeout=900 --continue-on-collection-errors",
                  "source_commits": [], "add_only": True},
        "engines": [{"name": "vcheck", "path": "vcheck", "serves_properties": [c["property_id"] for c in checks],
                     "kind_free_text": "Hypothesis 6.168 property-based testing, exhaustive small-domain enumeration and atheris 3.1 (libFuzzer) coverage-guided campaigns over the same generators; 16 process shards, explicit oracles per property (vlib/, checks/)"}],
        "checks": checks,
        "notes": "Genuine defects found and repaired are listed in known_findings.json (status fixed, with the fix commit) and DESIGN.md section 4; regress/ holds their minimal reproductions, replayed first by every run.  There is no open finding at present.",
        "not_applicable": na,
    }
    with open(os.path.join(HERE, "MANIFEST.json"), "w") as f:
        json.dump(man, f, indent=1)
        f.write("\n")
    try:
        import jsonschema
        jsonschema.validate(man, json.load(open("/root/.vp/MANIFEST.schema.json")))
        print("MANIFEST.json valid;", len(checks), "checks,", len(na), "not claimed")
    except ImportError:
        print("written (jsonschema not importable here)")


if __name__ == "__main__":
    sys.exit(main())
