#!/usr/bin/env python3
"""Regenerates the as-built inventory of sub-checks in DESIGN.md (between the INVENTORY markers) from checks/*.py."""
import importlib
import os
import re
import sys

HERE = os.path.dirname(os.path.dirname(os.path.abspath(__file__)))
sys.path.insert(0, HERE)


def main():
    rows = ["| property | sub-check | driver | quick | thorough | what it generates |", "|---|---|---|---|---|---|"]
    for i in range(1, 21):
        mod = importlib.import_module(f"checks.c{i:02d}")
        q = {s.name: s for s in mod.subchecks("quick")}
        t = {s.name: s for s in mod.subchecks("thorough")}
        for name in list(t):
            a, b = q.get(name), t[name]

            def size(s):
                if s is None:
                    return "-"
                if s.kind == "enum":
                    return "exhaustive"
                if s.kind == "fuzz":
                    return f"{s.fuzz_runs} execs x {s.shards}"
                return f"{s.examples} cases"
            kind = {"hyp": "Hypothesis", "enum": "enumeration", "fuzz": "atheris"}[b.kind]
            rows.append(f"| {mod.PROPERTY} | {name} | {kind} | {size(a)} | {size(b)} | {(b.describe or '').replace('|', '/')} |")
    p = os.path.join(HERE, "DESIGN.md")
    s = open(p).read()
    a, b = "<!-- INVENTORY-BEGIN -->", "<!-- INVENTORY-END -->"
    if a not in s:
        raise SystemExit("markers missing")
    s = re.sub(re.escape(a) + r".*?" + re.escape(b), lambda _: a + "\n" + "\n".join(rows) + "\n" + b, s, flags=re.S)
    open(p, "w").write(s)
    print(len(rows) - 2, "sub-checks")


if __name__ == "__main__":
    main()
