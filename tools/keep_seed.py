#!/usr/bin/env python3
"""tools/keep_seed.py C05 2 "C05" "caught after generator fix: small colliding ids"  -> /verif/seeded/C05-2/"""
import json, os, shutil, sys
prop, k, caught_by, note = sys.argv[1], sys.argv[2], sys.argv[3], sys.argv[4]
src = f"/tmp/seed_out/{prop}"
dst = os.path.join(os.path.dirname(os.path.dirname(os.path.abspath(__file__))), "seeded", f"{prop}-{k}")
os.makedirs(dst, exist_ok=True)
shutil.copy(f"{src}/patch{k}.diff", f"{dst}/patch.diff")
shutil.copy(f"{src}/demo{k}.py", f"{dst}/demo.py")
try:
    meta = json.load(open(f"{src}/meta{k}.json"))
except Exception:
    meta = {}
meta.update({"property": prop, "origin": "written by an independent sub-agent that saw only the property text and a scratch worktree",
             "confirmed": "tools/verify_seed.sh: demo exits 0 on a clean scratch worktree of /repo HEAD, patch applies, pytest 165 passed, demo exits non-zero with the patch",
             "checks_run": caught_by.split(), "detected_by": [c for c in caught_by.split() if not c.startswith("!")],
             "note": note})
json.dump(meta, open(f"{dst}/meta.json", "w"), indent=1)
print("kept", dst)
