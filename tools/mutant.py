#!/usr/bin/env python3
"""Sensitivity helper: apply a textual mutation to a scratch copy of the repository (outside /repo
and /verif), run one or more checks against it (VERIF_REPO), delete the copy.

usage: tools/mutant.py C12[,C01] path/in/repo 'old text' 'new text' [--tier quick] [--only sub]
       tools/mutant.py C12 --patch file.diff
"""
import os, shutil, subprocess, sys, tempfile

def main():
    args = sys.argv[1:]
    props = args[0].split(",")
    extra = []
    if "--only" in args:
        i = args.index("--only"); extra += ["--only", args[i + 1]]; del args[i:i + 2]
    if "--tier" in args:
        i = args.index("--tier"); extra += ["--tier", args[i + 1]]; del args[i:i + 2]
    tmp = tempfile.mkdtemp(prefix="coma_mut_")
    try:
        dst = os.path.join(tmp, "repo")
        shutil.copytree("/repo", dst, ignore=shutil.ignore_patterns(".git", "data", "__pycache__", "*.egg-info"))
        if args[1] == "--patch":
            subprocess.check_call(["patch", "-p1", "-s", "-d", dst, "-i", os.path.abspath(args[2])])
        else:
            path, old, new = args[1:4]
            p = os.path.join(dst, path)
            s = open(p).read()
            if s.count(old) < 1:
                print("MUTATION TEXT NOT FOUND"); return 3
            open(p, "w").write(s.replace(old, new, 1))
        rc_all = []
        for prop in props:
            env = dict(os.environ, VERIF_REPO=dst)
            r = subprocess.run([os.path.join(os.path.dirname(os.path.dirname(os.path.abspath(__file__))), "vcheck"),
                                prop, "--no-evidence"] + extra, env=env, capture_output=True, text=True)
            tail = [l for l in r.stdout.splitlines() if l.startswith(("violation:", "VIOLATION", "HARNESS", "KNOWN"))][:6]
            print(f"[{prop}] rc={r.returncode}", *tail, sep="\n   ")
            if r.returncode == 2:
                print(r.stdout[-1500:], r.stderr[-1500:])
            rc_all.append(r.returncode)
        return 0
    finally:
        shutil.rmtree(tmp, ignore_errors=True)

sys.exit(main())
