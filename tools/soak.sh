#!/bin/sh
# tools/soak.sh "C01 C02" "2 3 4"   -> runs each check at each seed without touching evidence
cd "$(dirname "$0")/.."
for s in $2; do for c in $1; do
  out=$(VERIF_SEED=$s ./vcheck $c --no-evidence ${3:+--tier $3} 2>&1); rc=$?
  echo "seed=$s $c rc=$rc $(echo "$out" | grep -E '^C[0-9]+ tier' | sed 's/.*evaluations/evaluations/')"
  [ $rc -ne 0 ] && echo "$out" | grep -E "violation|VIOLATION|HARNESS|Error|error" | head -8
done; done
