"""Hypothesis strategies for CMAP sets and CLI parameters (shared by the pipeline checks).

Everything is constructed from drawn integers (no assume/filter), so cases shrink towards few
molecules with few labels.  All coordinates have at most one decimal (what CMAP text carries).
"""
from __future__ import annotations

from hypothesis import strategies as st

MODES = ["best", "separate", "joined", "all"]
ALL_KINDS = ["exact", "exact", "noisy", "noisy", "stretched", "indel", "indel", "slip", "chimeric", "chimeric", "partial",
             "repeat", "unrelated", "short", "degenerate"]


def r1(x):
    return round(float(x) * 10) / 10


def _cum(first, gaps):
    out = [first]
    for g in gaps:
        out.append(out[-1] + g)
    return out


GAP = {
    "dense": st.integers(300, 3000),
    "realistic": st.one_of(st.integers(2000, 12000), st.integers(2000, 40000)),
    "sparse": st.integers(4000, 60000),
    "mixed": st.one_of(st.integers(300, 2500), st.integers(2000, 30000)),
}


@st.composite
def reference_map(draw, rid, sizes=("tiny", "small", "medium", "medium", "large", "large"), spacing=None):
    size = draw(st.sampled_from(sizes))
    if size == "large" and draw(st.integers(0, 8)) == 0:
        size = "huge"
    n = draw({"one": st.just(1), "tiny": st.integers(1, 6), "small": st.integers(8, 30), "medium": st.integers(25, 70),
              "large": st.integers(50, 120), "huge": st.integers(260, 700)}[size])
    kind = spacing or draw(st.sampled_from(["dense", "realistic", "realistic", "sparse", "mixed"]))
    if size == "huge":
        # several hundred labels (beyond 255 / 256 label numbers) from few draws: a drawn block of gaps tiled with an
        # index-dependent perturbation, so the map is not periodic
        base = draw(st.lists(GAP[kind], min_size=24, max_size=40))
        gaps = [base[i % len(base)] + (i * i * 31 + 17 * i) % 1500 for i in range(n - 1)]
    else:
        gaps = draw(st.lists(GAP[kind], min_size=n - 1, max_size=n - 1))
    if n >= 10 and draw(st.integers(0, 3)) == 0:       # tandem repeat block
        w = draw(st.integers(3, 7))
        b = draw(st.integers(0, max(0, len(gaps) - w)))
        copies = draw(st.integers(1, 3))
        gaps = gaps[:b + w] + gaps[b:b + w] * copies + gaps[b + w:]
    first = draw(st.one_of(st.integers(0, 3000), st.integers(0, 30000)))
    if draw(st.integers(0, 11)) == 0:
        # chromosome-scale coordinates (tens of Mbp): where single-precision or text-width shortcuts lose the decimal
        first += draw(st.integers(2_000_000, 40_000_000))
    labels = _cum(first, gaps)
    salt = draw(st.sampled_from([0, 0, 3, 7]))
    labels = [r1(p + ((i * salt) % 10) / 10) for i, p in enumerate(labels)]
    length = r1(labels[-1] + draw(st.one_of(st.just(0), st.integers(1, 30000))) + (0.4 if salt else 0))
    return {"id": rid, "length": length, "labels": labels}


def _window(draw, ref, kmin, kmax):
    n = len(ref["labels"])
    if n >= 260 and draw(st.booleans()):
        kmin, kmax = max(kmin, 130), max(kmax, 450)       # a molecule with hundreds of labels
    hi = min(kmax, n)
    k = draw(st.one_of(st.integers(min(kmin, hi), hi), st.integers(min(max(kmin, 14), hi), hi)))
    i = draw(st.integers(0, n - k))
    lab = ref["labels"][i:i + k]
    return i, k, [p - lab[0] for p in lab]


@st.composite
def query_map(draw, qid, refs, kinds=ALL_KINDS):
    kind = draw(st.sampled_from(kinds))
    ri = draw(st.integers(0, len(refs) - 1))
    ref = refs[ri]
    truth = {"kind": kind, "ref": ref["id"]}
    maxlen = max(r["length"] for r in refs)
    if kind in ("exact", "noisy", "stretched", "indel", "repeat", "partial", "slip"):
        i, k, pos = _window(draw, ref, 7, 45)
        truth.update(i=i, k=k)
        if kind == "slip" and len(pos) >= 8:
            # an indel of exactly one (or two) inter-label distances: the tail lies on a diagonal on which every label
            # meets its neighbour's partner, so the first- and second-pass alignments end / start on the same label
            j = draw(st.integers(3, len(pos) - 4))
            w = draw(st.sampled_from([1, 1, 2]))
            if draw(st.booleans()):
                gap = pos[j] - pos[max(0, j - w)]
                pos = pos[:j] + [p - gap for p in pos[j:]]          # deletion: label j falls onto label j-w
            else:
                gap = pos[min(len(pos) - 1, j + w)] - pos[j]
                pos = pos[:j] + [p + gap for p in pos[j:]]          # insertion of one inter-label distance
            pos = sorted(set(pos))
            truth.update(slip_at=j, slip=gap)
        if kind in ("noisy", "indel") and k >= 2:
            s = draw(st.sampled_from([60, 250, 600]))
            jit = draw(st.lists(st.integers(-s, s), min_size=k, max_size=k))
            pos = [p + j for p, j in zip(pos, jit)]
            drop = set(draw(st.lists(st.integers(0, k - 1), max_size=max(0, k // 5))))
            kept = [p for n_, p in enumerate(pos) if n_ not in drop] or pos[:1]
            extra = draw(st.lists(st.integers(0, int(max(max(pos), 0)) + 1), max_size=3))
            pos = kept + extra
        if kind == "stretched":
            f = draw(st.integers(88, 112)) / 100
            pos = [p * f for p in pos]
        if kind == "indel" and len(pos) >= 5:
            pos = sorted(pos)
            j = draw(st.integers(2, len(pos) - 2))
            sh = draw(st.integers(3000, 60000)) * draw(st.sampled_from([1, 1, -1]))
            if sh < 0:
                sh = -min(-sh, max(0, int(pos[j] - pos[j - 1]) - 400))
            pos = pos[:j] + [p + sh for p in pos[j:]]
            truth.update(indel_at=j, indel=sh)
        if kind == "partial":
            # aligned part + unrelated tail or head (exercises the second pass)
            m = draw(st.integers(7, 25))
            tail = _cum(0, draw(st.lists(GAP["realistic"], min_size=m, max_size=m)))[1:]
            if draw(st.booleans()):
                pos = pos + [max(pos) + t for t in tail]
            else:
                span = tail[-1] + draw(st.integers(2000, 9000))
                pos = [tail[-1] - t for t in tail[::-1]] + [0 + tail[-1]] + [span + p for p in pos]
    elif kind == "chimeric":
        i, k, pos = _window(draw, ref, 7, 30)
        ref2 = refs[draw(st.integers(0, len(refs) - 1))]
        i2, k2, pos2 = _window(draw, ref2, 7, 30)
        if draw(st.booleans()):
            pos2 = [max(pos2) - p for p in pos2[::-1]]
        gap = draw(st.integers(2000, 20000))
        base = max(pos) + gap
        pos = pos + [base + p for p in pos2]
        truth.update(i=i, k=k, ref2=ref2["id"], i2=i2, k2=k2)
    elif kind == "unrelated":
        k = draw(st.integers(5, 35))
        pos = _cum(0, draw(st.lists(GAP["realistic"], min_size=k - 1, max_size=k - 1)))
    elif kind == "short":
        i, k, pos = _window(draw, ref, 1, 6)
        truth.update(i=i, k=k)
    else:  # degenerate
        sub = draw(st.sampled_from(["one", "two", "dup", "toolong", "dense-run"]))
        truth["sub"] = sub
        if sub == "one":
            pos = [0]
        elif sub == "two":
            pos = [0, draw(st.integers(0, 50000))]
        elif sub == "dup":
            i, k, pos = _window(draw, ref, 2, 12)
            d = draw(st.integers(0, len(pos) - 1))
            pos = pos[:d + 1] + [pos[d]] * draw(st.integers(1, 2)) + pos[d + 1:]
        elif sub == "toolong":
            k = draw(st.integers(2, 12))
            pos = _cum(0, draw(st.lists(st.integers(2000, 30000), min_size=k - 1, max_size=k - 1)))
            pos.append(int(maxlen) + draw(st.integers(1, 50000)))
        else:
            k = draw(st.integers(3, 20))
            pos = _cum(0, draw(st.lists(st.integers(1, 100), min_size=k - 1, max_size=k - 1)))
    pos = sorted(pos)
    rev = draw(st.booleans())
    if rev:
        top = pos[-1]
        pos = [top - p for p in pos[::-1]]
    truth["strand"] = "-" if rev else "+"
    off = draw(st.one_of(st.just(0), st.integers(0, 30000)))
    frac = draw(st.sampled_from([0, 0, 0.3, 0.7]))
    lo = min(pos)
    labels = sorted(r1(p - lo + off + frac) for p in pos)
    length = r1(labels[-1] + draw(st.one_of(st.just(0), st.integers(1, 30000))))
    truth["offset"] = r1(off + frac)
    return {"id": qid, "length": length, "labels": labels, "truth": truth}


def _opt(values, weight_default=3):
    return st.sampled_from([None] * weight_default + list(values))


ARG_SPACE = {
    "-sp": [500, 2000, 1500],
    "-dp": [0.5, 2.0, 0.35],
    "-su": [0, -100, -600, -1000],
    "-d": [300, 800, 3000, 6000],
    "-ms": [1, 500, 2000, 3000],
    "-bs": [0, 600, 2500],
    "-p": [1, 2, 5, 8],
    "-diff": [0, 1000, 20000],
    "-sj": [0.5, 2.0, 0.0],
    "-ss": [1],
    "-pt": [5.0, 15.0, 40.0],
    "-ma": [2000, 8000, 30000],
    "-r1": [700, 2800],
    "-b1": [0, 2],
    "-md": [5000, 60000],
    "-r2": [50, 200],
    "-b2": [0, 2, 6],
}


@st.composite
def cli_args(draw, options=None, weight_default=3):
    out = {}
    for k in (options or list(ARG_SPACE)):
        v = draw(_opt(ARG_SPACE[k], weight_default))
        if v is not None:
            out[k] = v
    # the option help's documented constraint: minPeakDistance not below primaryResolution
    r1_ = out.get("-r1", 1400)
    if out.get("-md", 20000) < r1_:
        out["-md"] = r1_
    return out


# molecule ids that a narrower integer type or a detour through a double would not survive: around 2^31 and 2^32
# (2^32 + k collides with the small id k modulo 2^32), beyond 2^53 (neighbouring odd ids share a double), near 2^63
SPECIAL_IDS = [2 ** 31 - 1, 2 ** 31, 2 ** 31 + 1, 2 ** 32 + 1, 2 ** 32 + 2, 2 ** 32 + 3, 2 ** 32 + 7, 3000000001, 2 ** 53 + 1, 2 ** 53 + 3,
               10 ** 16 + 1, 10 ** 16 + 2, 20260508000000003, 2 ** 63 - 2]


def molecule_ids(small, medium):
    return st.one_of(small, small, medium, medium, st.sampled_from(SPECIAL_IDS))


@st.composite
def pipeline_case(draw, modes=MODES, kinds=ALL_KINDS, max_refs=3, max_queries=6, options=None, weight_default=3,
                  ref_sizes=("tiny", "small", "medium", "medium", "large", "large"), min_queries=1, flank_repeat=0):
    nr = draw(st.integers(1, max_refs))
    # small id ranges on purpose: query ids, reference ids and file positions collide, exposing id/index mix-ups
    rids = draw(st.lists(molecule_ids(st.integers(1, 6), st.integers(1, 999)), min_size=nr, max_size=nr, unique=True))
    refs = [draw(reference_map(rid, ref_sizes)) for rid in rids]
    nq = draw(st.integers(min_queries, max_queries))
    qids = draw(st.lists(molecule_ids(st.integers(1, 10), st.integers(1, 99999)), min_size=nq, max_size=nq, unique=True))
    queries = [draw(query_map(qid, refs, kinds)) for qid in qids]
    case = {"refs": refs, "queries": queries, "mode": draw(st.sampled_from(list(modes))),
            "args": draw(cli_args(options, weight_default))}
    # the additional output files are named after the main one: vary its extension and spelling
    of = draw(st.sampled_from(["out.xmap"] * 5 + ["out", "result.tsv", "run.v2.xmap", "OUT.XMAP", "out.xmap.txt"]))
    if of != "out.xmap":
        case["outfile"] = of
    if flank_repeat and draw(st.integers(0, 5)) < flank_repeat:
        add_flank_repeat(draw, case)
    return case


def add_flank_repeat(draw, case):
    """a reference [P] ... [M] and a query [P][M][P] on a 100 bp lattice: the first pass places M (the longer part), the
    second pass gets a head and a tail fragment of the same molecule that both place P with exactly the same score, so
    whatever orders the rows of one query by arrival becomes visible (added after seeded change C09-4 was missed; exact confidence ties between two rows of one query also matter to C05/C08/C10)"""
    def lattice(n, lo, hi):
        return [100 * g for g in draw(st.lists(st.integers(lo, hi), min_size=n, max_size=n))]
    kp, km = draw(st.integers(8, 12)), draw(st.integers(16, 26))
    P = _cum(0, lattice(kp - 1, 30, 150))
    M = _cum(0, lattice(km - 1, 30, 150))
    g1, g2 = 100 * draw(st.integers(40, 160)), 100 * draw(st.integers(40, 160))
    # the seeding correlation only considers placements where the whole molecule lies inside the reference: the tail
    # fragment (which keeps the molecule's length) can only place its P on the reference's P if a molecule's length of
    # reference lies in front of it
    lead = _cum(100 * draw(st.integers(0, 200)), lattice(draw(st.integers(2, 6)), 40, 200))
    while lead[-1] < P[-1] + g1 + M[-1] + g2 + 5000:
        lead.append(lead[-1] + 100 * draw(st.integers(100, 300)))
    r = list(lead)
    p0 = (r[-1] if r else 0) + 100 * draw(st.integers(40, 200))
    r += [p0 + x for x in P]
    spacer = _cum(r[-1] + 100 * draw(st.integers(300, 900)), lattice(draw(st.integers(0, 4)), 200, 700))
    r += spacer
    m0 = r[-1] + 100 * draw(st.integers(300, 900))
    r += [m0 + x for x in M]
    # ... and at least a flank's worth of reference behind M
    end_m = r[-1]
    tail = _cum(end_m + 100 * draw(st.integers(40, 200)), lattice(draw(st.integers(2, 6)), 40, 200))
    while tail[-1] < end_m + g2 + P[-1] + 5000:
        tail.append(tail[-1] + 100 * draw(st.integers(100, 300)))
    r += tail
    rid = max([x["id"] for x in case["refs"]] + [0]) + draw(st.integers(1, 3))
    case["refs"].append({"id": rid, "length": float(r[-1] + 100 * draw(st.integers(0, 50))), "labels": [float(x) for x in r]})
    q = list(P)
    q += [q[-1] + g1 + x for x in M]
    q += [q[-1] + g2 + x for x in P]
    if draw(st.booleans()):
        q = [q[-1] - x for x in q[::-1]]
    qid = max([x["id"] for x in case["queries"]] + [0]) + draw(st.integers(1, 3))
    case["queries"].insert(draw(st.integers(1, len(case["queries"]))),
                           {"id": qid, "length": float(q[-1] + 1), "labels": [float(x) for x in q], "truth": {"kind": "flank-repeat"}})


def short_case(case):
    """evidence-sample form of a pipeline case: geometry summarised, first labels kept"""
    def m(x):
        d = {"id": x["id"], "length": x["length"], "n_labels": len(x["labels"]), "labels_head": x["labels"][:6]}
        if "truth" in x:
            d["truth"] = x["truth"]
        return d
    out = {k: v for k, v in case.items() if k not in ("refs", "queries")}
    out["refs"] = [m(x) for x in case.get("refs", [])]
    out["queries"] = [m(x) for x in case.get("queries", [])]
    return out
