"""CMAP writer of the harness: harness model -> text.  Never uses src/parsers.

A map model is {"id": int, "length": float, "labels": [float, ...]} with labels ascending.
"""
from __future__ import annotations

HEADER = ["# CMAP File Version:\t0.1", "# Label Channels:\t1", "# Nickase Recognition Site 1:\tunknown"]
COLS = ["CMapId", "ContigLength", "NumSites", "SiteID", "LabelChannel", "Position", "StdDev", "Coverage", "Occurrence"]
TYPES = ["int", "float", "int", "int", "int", "float", "float", "float", "float"]


def fmt(x):
    return f"{x:.1f}"


def rows_of(m):
    n = len(m["labels"])
    rows = []
    for i, p in enumerate(m["labels"]):
        rows.append({"CMapId": str(m["id"]), "ContigLength": fmt(m["length"]), "NumSites": str(n), "SiteID": str(i + 1),
                     "LabelChannel": "1", "Position": fmt(p), "StdDev": "0.0", "Coverage": "1.0", "Occurrence": "1.0"})
    rows.append({"CMapId": str(m["id"]), "ContigLength": fmt(m["length"]), "NumSites": str(n), "SiteID": str(n + 1),
                 "LabelChannel": "0", "Position": fmt(m["length"]), "StdDev": "0.0", "Coverage": "1.0", "Occurrence": "1.0"})
    return rows


def cmap_text(maps, row_perm=None, col_order=None, extra_cols=0):
    """row_perm: permutation (list of indices) applied to all data rows; col_order: permutation of COLS;
    extra_cols: number of additional columns appended (GmeanSNR-like)."""
    cols = list(COLS)
    types = list(TYPES)
    for k in range(extra_cols):
        cols.append(f"Extra{k}")
        types.append("float")
    order = list(range(len(cols))) if col_order is None else list(col_order) + list(range(len(COLS), len(cols)))
    rows = [r for m in maps for r in rows_of(m)]
    for r in rows:
        for k in range(extra_cols):
            r[f"Extra{k}"] = f"{(k + 1) * 1.5:.4f}"
    if row_perm is not None:
        rows = [rows[i] for i in row_perm]
    lines = list(HEADER) + [f"# Number of Consensus Maps:\t{len(maps)}",
                            "#h " + "\t".join(cols[i] for i in order), "#f " + "\t".join(types[i] for i in order)]
    for r in rows:
        lines.append("\t".join(r[cols[i]] for i in order))
    return "\n".join(lines) + "\n"


def n_rows(maps):
    return sum(len(m["labels"]) + 1 for m in maps)
