"""Schedule-perturbing launcher for the real CLI (C09).

Runs in the child process *instead of* the plain entry snippet: before main() it wraps the per-query
worker of the workflow coordinator with a delay derived from (VERIF_PERTURB, query id), so that the
harness owns the order in which the pool's workers finish.  Forked pool workers inherit the wrapper.
Nothing in the repository is modified.
"""
import hashlib
import os
import sys
import time

sys.dont_write_bytecode = True
sys.path.insert(0, os.environ["VERIF_REPO"])

import src.workflow_coordinator as wc  # noqa: E402

NAME = "_WorkflowCoordinator__align"
cls = getattr(wc, "_WorkflowCoordinator", None)
if cls is None or not hasattr(cls, NAME):
    sys.stderr.write("launcher: per-query worker _WorkflowCoordinator.__align not found\n")
    sys.exit(97)

_orig = getattr(cls, NAME)
_seed = os.environ.get("VERIF_PERTURB", "")
_max = float(os.environ.get("VERIF_PERTURB_MAX", "0.04"))
_log = os.environ.get("VERIF_ORDER_LOG")


def _wrapped(self, referenceMaps, queryMap):
    if _seed:
        h = hashlib.sha1(f"{_seed}:{queryMap.moleculeId}:{queryMap.shift}:{len(queryMap.positions)}".encode()).digest()
        time.sleep(_max * h[0] / 255.0)
    out = _orig(self, referenceMaps, queryMap)
    if _log:
        with open(_log, "a") as f:
            f.write(f"{time.time():.6f}\t{queryMap.moleculeId}\t{queryMap.shift}\t{len(queryMap.positions)}\n")
    return out


setattr(cls, NAME, _wrapped)

from src.program import main  # noqa: E402

main()
