"""Runner: shards sub-checks over processes, merges counters, writes evidence, reports.

Exit codes: 0 held / only known findings; 1 unknown violation (VIOLATION line); 2 harness error.
"""
from __future__ import annotations

import argparse
import collections
import importlib
import json
import multiprocessing
import os
import sys
import time
import traceback
from concurrent.futures import ProcessPoolExecutor, as_completed

from . import findings
from .core import (VERIF_DIR, HarnessError, Sub, Violation, canon, derive_seed, digest,
                   install_repo_path)

MAX_SAMPLE_CHARS = 6000
MAX_VIOLATIONS_PER_SHARD = 4
CASE_ALARM_S = int(os.environ.get("VERIF_CASE_ALARM_S", "600"))   # a case that runs this long is abandoned (inconclusive)


def _shorten(case, sub: Sub):
    if sub.sample_filter is not None:
        try:
            case = sub.sample_filter(case)
        except Exception:  # noqa: BLE001
            pass
    s = canon(case)
    if len(s) > MAX_SAMPLE_CHARS:
        return {"truncated_json": s[:MAX_SAMPLE_CHARS] + "..."}
    return json.loads(s)


class _ShardState:
    def __init__(self, prop, sub, shard, seed):
        self.prop, self.sub, self.shard, self.seed = prop, sub, shard, seed
        self.evals = 0
        self.skipped_time = 0
        self.nontrivial = set()
        self.nontrivial_count = 0
        self.classes = collections.Counter()
        self.samples = []
        self.trivial_sample = None
        self.known = collections.Counter()
        self.known_example = {}
        self.fail = {}            # signature -> (len, case, what, detail)
        self.fail_digests = {}    # digest -> Violation
        self.post_fail_calls = 0
        self.t0 = time.time()
        self.open_entries = findings.open_for(prop)

    def run_case(self, case, hyp=True):
        sub = self.sub
        if time.time() - self.t0 > sub.time_budget_s:
            self.skipped_time += 1
            return
        exhausted = (hyp and sub.shrink_budget is not None and self.fail
                     and self.post_fail_calls >= sub.shrink_budget)
        if exhausted:
            d = digest(case)
            if d in self.fail_digests:
                raise self.fail_digests[d]
            return
        if self.fail:
            self.post_fail_calls += 1
        self.evals += 1
        try:
            info = self._check_with_alarm(case) or {}
        except _CaseTimeout:
            # wall clock is never a correctness signal: the case is set aside as inconclusive and counted
            self.skipped_time += 1
            self.classes["case-abandoned-after-%ds" % CASE_ALARM_S] += 1
            return
        except Violation as v:
            fid = findings.match(self.prop, v.signature, self.open_entries)
            if fid:
                self.known[fid] += 1
                ex = self.known_example.get(fid)
                c = canon(case)
                if ex is None or len(c) < ex[0]:
                    self.known_example[fid] = (len(c), json.loads(c), v.signature)
                self.classes["known-finding:" + fid] += 1
                return
            c = canon(case)
            old = self.fail.get(v.signature)
            if old is None or len(c) <= old[0]:
                self.fail[v.signature] = (len(c), json.loads(c), v.what, v.detail)
            self.fail_digests[digest(case)] = v
            raise
        for cl in info.get("classes", ()):
            self.classes[cl] += 1
        if info.get("nontrivial"):
            if sub.kind == "enum" and sub.exhaustive:
                self.nontrivial_count += 1
            else:
                self.nontrivial.add(digest(case))
            if len(self.samples) < 2:
                self.samples.append(_shorten(case, sub))
        elif self.trivial_sample is None:
            self.trivial_sample = _shorten(case, sub)

    def _check_with_alarm(self, case):
        import signal

        def on_alarm(signum, frame):
            raise _CaseTimeout()
        try:
            old = signal.signal(signal.SIGALRM, on_alarm)
        except ValueError:       # not in the main thread
            return self.sub.check(case)
        signal.alarm(CASE_ALARM_S)
        try:
            return self.sub.check(case)
        finally:
            signal.alarm(0)
            signal.signal(signal.SIGALRM, old)

    def result(self, error=None):
        return {
            "sub": self.sub.name, "shard": self.shard, "seed": self.seed,
            "evals": self.evals, "skipped_time": self.skipped_time,
            "nontrivial": list(self.nontrivial), "nontrivial_count": self.nontrivial_count,
            "classes": dict(self.classes), "samples": self.samples,
            "trivial_sample": self.trivial_sample,
            "known": dict(self.known),
            "known_example": {k: {"case": v[1], "signature": v[2]} for k, v in self.known_example.items()},
            "fail": {k: {"case": v[1], "what": v[2], "detail": v[3]} for k, v in self.fail.items()},
            "error": error, "wall": time.time() - self.t0,
        }


def _fuzz_child(st, sub, seed, path):
    """Runs in a forked child that never returns: libFuzzer exits the process itself and atexit handlers do not
    run, so the shard result is written to `path` whenever it changes materially."""
    def dump(error=None):
        tmp = path + ".tmp"
        with open(tmp, "w") as f:
            json.dump(st.result(error=error), f, default=str)
        os.replace(tmp, path)

    try:
        sys.stderr.flush()
        os.dup2(os.open(os.devnull, os.O_WRONLY), 2)     # atheris' instrumentation notes, libFuzzer's progress log
        # installed by MANIFEST.setup_cmd into /verif/.deps; a snapshot of /verif (vp run) has no .deps of its own
        for deps in (os.environ.get("VERIF_DEPS"), "/verif/.deps", os.path.join(VERIF_DIR, ".deps")):
            if deps and os.path.isdir(deps):
                sys.path.insert(0, deps)
        try:
            import atheris
        except ImportError:
            st.classes["atheris-unavailable"] += 1
            dump()
            return
        import hypothesis
        from hypothesis import HealthCheck, given, settings
        inc = tuple(sub.fuzz_include)
        for k in list(sys.modules):   # re-import the code under test with coverage instrumentation
            if any(k == m or k.startswith(m + ".") for m in inc):
                del sys.modules[k]

        def body(case):
            st.run_case(case, hyp=False)

        with atheris.instrument_imports(include=list(inc), enable_loader_override=False):
            @hypothesis.seed(seed)
            @settings(max_examples=5, database=None, deadline=None, derandomize=False, print_blob=False,
                      phases=[hypothesis.Phase.generate], suppress_health_check=list(HealthCheck))
            @given(sub.strategy())
            def warm(case):
                body(case)
            try:
                warm()          # lazy imports inside check() happen here, instrumented
            except Violation:
                dump()
                return

        @settings(database=None, deadline=None, suppress_health_check=list(HealthCheck))
        @given(sub.strategy())
        def test(case):
            body(case)

        execs = [0]

        def one(data):
            execs[0] += 1
            try:
                test.hypothesis.fuzz_one_input(data)
            except Violation:
                st.classes["atheris-execs"] = execs[0]
                dump()
                os._exit(0)
            except BaseException:  # noqa: BLE001
                dump(error=traceback.format_exc())
                os._exit(0)
            out_of_time = execs[0] % 50 == 0 and time.time() - st.t0 > sub.time_budget_s
            if execs[0] % 2000 == 0 or execs[0] >= sub.fuzz_runs or out_of_time:
                st.classes["atheris-execs"] = execs[0]
                if out_of_time:
                    st.classes["atheris-campaign-ended-by-time-budget"] = 1     # inconclusive for the rest, not a failure
                dump()
                if execs[0] >= sub.fuzz_runs or out_of_time:
                    os._exit(0)

        dump()
        # starting corpus: pseudo-random blobs derived from the shard seed (an empty corpus starts from inputs too
        # short for the larger generators, whose test body then never runs and gives libFuzzer no coverage to follow)
        import hashlib
        corpus = path + ".corpus"
        os.makedirs(corpus, exist_ok=True)
        for k, size in enumerate((64, 256, 1024, 2048, 4096, 8192, 8192, 16384)):
            blob = b"".join(hashlib.sha256(f"{seed}:{k}:{j}".encode()).digest() for j in range(size // 32))
            with open(os.path.join(corpus, f"seed{k}"), "wb") as f:
                f.write(blob)
        atheris.Setup([sys.argv[0], f"-seed={seed % (2 ** 31 - 1) + 1}", f"-runs={sub.fuzz_runs + 100}",
                       "-max_len=16384", "-len_control=0", f"-artifact_prefix={corpus}/", "-report_slow_units=3600",
                       corpus], one)
        atheris.Fuzz()
    except SystemExit:
        pass
    except BaseException:  # noqa: BLE001
        try:
            dump(error=traceback.format_exc())
        except Exception:  # noqa: BLE001
            pass


def _fuzz_shard(st, sub, seed):
    import tempfile
    fd, path = tempfile.mkstemp(prefix="vfuzz_", suffix=".json")
    os.close(fd)
    try:
        pid = os.fork()
        if pid == 0:
            try:
                _fuzz_child(st, sub, seed, path)
            finally:
                os._exit(0)
        _, status = os.waitpid(pid, 0)
        try:
            with open(path) as f:
                res = json.load(f)
        except Exception:  # noqa: BLE001
            res = st.result(error=f"fuzz child left no result (wait status {status})")
        return res
    finally:
        import shutil
        for q in (path, path + ".tmp"):
            if os.path.exists(q):
                os.unlink(q)
        shutil.rmtree(path + ".corpus", ignore_errors=True)


class _CaseTimeout(BaseException):
    pass


def _limit_worker():
    """A runaway allocation in the code under test must surface as MemoryError inside the case (reported as a crash
    violation with a replayable input) instead of the kernel killing the worker, which would lose the case."""
    try:
        import resource
        lim = int(os.environ.get("VERIF_WORKER_MEM_GB", "3")) * 2 ** 30
        resource.setrlimit(resource.RLIMIT_AS, (lim, lim))
    except Exception:  # noqa: BLE001
        pass


def _worker(modname, tier, sub_index, shard, base_seed):
    _limit_worker()
    try:
        install_repo_path()
        mod = importlib.import_module(modname)
        sub: Sub = mod.subchecks(tier)[sub_index]
        seed = derive_seed(base_seed, mod.PROPERTY, sub.name, shard)
        st = _ShardState(mod.PROPERTY, sub, shard, seed)
    except Exception:  # noqa: BLE001
        return {"sub": str(sub_index), "shard": shard, "error": traceback.format_exc(), "evals": 0,
                "nontrivial": [], "nontrivial_count": 0, "classes": {}, "samples": [], "known": {},
                "known_example": {}, "fail": {}, "skipped_time": 0, "trivial_sample": None, "wall": 0,
                "seed": 0}
    try:
        if sub.kind == "fuzz":
            if os.environ.get("VERIF_FUZZ_RUNS"):      # development aid: shorter campaigns
                sub.fuzz_runs = int(os.environ["VERIF_FUZZ_RUNS"])
            return _fuzz_shard(st, sub, seed)
        if sub.kind == "enum":
            for case in sub.enumerate(shard, sub.shards):
                try:
                    st.run_case(case, hyp=False)
                except Violation:
                    if len(st.fail) >= MAX_VIOLATIONS_PER_SHARD:
                        break
        else:
            import hypothesis
            from hypothesis import HealthCheck, Phase, given, settings
            n = max(1, sub.examples // sub.shards + (1 if shard < sub.examples % sub.shards else 0))
            if os.environ.get("VERIF_SCALE"):          # tools/mutants.py: cheaper runs for the mutation sweep
                n = max(1, int(n * float(os.environ["VERIF_SCALE"])))

            skipped = [not sub.skip_first]

            @hypothesis.seed(seed)
            @settings(max_examples=n + (1 if sub.skip_first else 0), database=None, deadline=None, derandomize=False,
                      report_multiple_bugs=False, print_blob=False,
                      phases=[Phase.generate, Phase.shrink],
                      suppress_health_check=list(HealthCheck))
            @given(sub.strategy())
            def test(case):
                if not skipped[0]:
                    skipped[0] = True
                    return
                st.run_case(case)

            try:
                test()
            except Violation:
                pass
            except BaseException as e:  # noqa: BLE001
                # Flaky / Unsatisfiable etc.: a harness matter unless a violation was recorded
                if not st.fail:
                    raise
                st.classes["hypothesis-wrapup:" + type(e).__name__] += 1
        return st.result()
    except Exception:  # noqa: BLE001
        return st.result(error=traceback.format_exc())


def _run_regress(mod, tier):
    """Committed minimal reproductions: run first, in this process."""
    out = {"ran": 0, "known": collections.Counter(), "fail": {}}
    d = os.path.join(VERIF_DIR, "regress", mod.PROPERTY)
    if not os.path.isdir(d):
        return out
    subs = {s.name: s for s in mod.subchecks(tier)}
    entries = findings.open_for(mod.PROPERTY)
    for fn in sorted(os.listdir(d)):
        if not fn.endswith(".json"):
            continue
        with open(os.path.join(d, fn)) as f:
            rec = json.load(f)
        sub = subs.get(rec["sub"])
        if sub is None:
            raise HarnessError(f"regress file {fn}: unknown sub {rec['sub']}")
        out["ran"] += 1
        try:
            sub.check(rec["case"])
        except Violation as v:
            fid = findings.match(mod.PROPERTY, v.signature, entries)
            if fid:
                out["known"][fid] += 1
            else:
                out["fail"][v.signature] = {"case": rec["case"], "what": v.what + f" (regress/{fn})",
                                            "detail": v.detail}
    return out


def write_replay(prop, sub_name, signature, rec):
    os.makedirs(os.path.join(VERIF_DIR, "replays"), exist_ok=True)
    body = {"property": prop, "sub": sub_name, "signature": signature, "what": rec["what"],
            "case": rec["case"], "detail": rec.get("detail")}
    name = f"{prop}-{digest(rec['case']) & 0xffffffffffff:012x}.json"
    path = os.path.join(VERIF_DIR, "replays", name)
    with open(path, "w") as f:
        json.dump(body, f, indent=1, sort_keys=True, default=str)
    return os.path.relpath(path, VERIF_DIR)


def replay(mod, tier, path):
    with open(path) as f:
        rec = json.load(f)
    subs = {s.name: s for s in mod.subchecks(tier)}
    sub = subs[rec["sub"]]
    try:
        info = sub.check(rec["case"])
    except Violation as v:
        fid = findings.match(mod.PROPERTY, v.signature)
        if fid:
            print(f"KNOWN-FINDING: property={mod.PROPERTY} {fid} {v.signature}: {v.what}")
            return 0
        print(f"replayed: {v.signature}: {v.what}")
        print(f"VIOLATION property={mod.PROPERTY} replay={path}")
        return 1
    print(f"replay of {path}: property held ({info})")
    return 0


def main(argv=None):
    ap = argparse.ArgumentParser()
    ap.add_argument("prop")
    ap.add_argument("--tier", default=os.environ.get("VERIF_TIER") or "quick", choices=["quick", "thorough"])
    ap.add_argument("--replay")
    ap.add_argument("--only", help="comma list of sub-check names")
    ap.add_argument("--jobs", type=int, default=int(os.environ.get("VERIF_JOBS", "16")))
    ap.add_argument("--no-evidence", action="store_true")
    ap.add_argument("--no-replay-file", action="store_true", help="report violations without writing replays/")
    a = ap.parse_args(argv)
    prop = a.prop.upper()
    os.environ.setdefault("PYTHONHASHSEED", "0")
    os.environ["PYTHONDONTWRITEBYTECODE"] = "1"
    try:
        base_seed = int(os.environ.get("VERIF_SEED", "1"))
    except ValueError:
        base_seed = 1
    t0 = time.time()
    # every scratch file of this run (per-case directories, fuzz corpora) lives under one directory that is removed at
    # the end, also when workers were killed half-way (fail-fast) and could not clean up themselves
    import atexit
    import shutil
    import tempfile
    scratch = tempfile.mkdtemp(prefix="vcheck_")
    os.environ["TMPDIR"] = scratch
    tempfile.tempdir = scratch
    atexit.register(shutil.rmtree, scratch, ignore_errors=True)
    try:
        install_repo_path()
        modname = f"checks.{prop.lower()}"
        mod = importlib.import_module(modname)
        if a.replay:
            return replay(mod, a.tier, a.replay)
        subs = mod.subchecks(a.tier)
        if a.only:
            keep = set(a.only.split(","))
            idx = [i for i, s in enumerate(subs) if s.name in keep]
        else:
            idx = list(range(len(subs)))
        reg = _run_regress(mod, a.tier)
        tasks = [(modname, a.tier, i, sh, base_seed) for i in idx for sh in range(subs[i].shards)]
        results = []
        ctx = multiprocessing.get_context("fork")
        failfast = bool(os.environ.get("VERIF_FAILFAST"))   # tools/mutants.py: stop at the first violation
        ex = ProcessPoolExecutor(max_workers=a.jobs, mp_context=ctx)
        try:
            futs = [ex.submit(_worker, *t) for t in tasks]
            for f in as_completed(futs):
                results.append(f.result())
                if failfast and results[-1].get("fail"):
                    procs = list(getattr(ex, "_processes", {}).values())
                    ex.shutdown(wait=False, cancel_futures=True)
                    for p in procs:
                        p.kill()
                    break
        finally:
            ex.shutdown(wait=not (failfast and any(r.get("fail") for r in results)), cancel_futures=True)
    except Exception:  # noqa: BLE001
        traceback.print_exc()
        print(f"HARNESS-ERROR property={prop}")
        return 2

    errors = [r for r in results if r.get("error")]
    per_sub = {}
    all_nontrivial = set()
    nontrivial_total = 0
    classes = collections.Counter()
    known = collections.Counter(reg["known"])
    known_example = {}
    fails = dict(reg["fail"])
    fail_sub = {k: "regress" for k in fails}
    samples = []
    trivial_samples = []
    evaluations = reg["ran"]
    skipped_time = 0
    for i in idx:
        s = subs[i]
        rs = [r for r in results if r["sub"] == s.name]
        nt = set()
        ntc = 0
        cl = collections.Counter()
        for r in rs:
            nt.update(r["nontrivial"])
            ntc += r["nontrivial_count"]
            cl.update(r["classes"])
            known.update(r["known"])
            for k, v in r["known_example"].items():
                if k not in known_example or len(canon(v["case"])) < len(canon(known_example[k]["case"])):
                    known_example[k] = dict(v, sub=s.name)
            for sig, rec in r["fail"].items():
                if sig not in fails or len(canon(rec["case"])) < len(canon(fails[sig]["case"])):
                    fails[sig] = rec
                    fail_sub[sig] = s.name
            skipped_time += r["skipped_time"]
        ev = sum(r["evals"] for r in rs)
        evaluations += ev
        per_sub[s.name] = {"kind": s.kind, "evaluations": ev, "distinct_nontrivial": len(nt) + ntc,
                           "exhaustive": bool(s.exhaustive and s.kind == "enum"
                                              and not any(r["skipped_time"] for r in rs) and not fails),
                           "describe": s.describe, "classes": dict(sorted(cl.items())),
                           "max_shard_wall_s": round(max([r["wall"] for r in rs] or [0]), 1)}
        all_nontrivial.update((s.name, d) for d in nt)
        nontrivial_total += ntc
        classes.update({f"{s.name}/{k}": v for k, v in cl.items()})
        for r in sorted(rs, key=lambda r: r["shard"]):
            for sm in r["samples"]:
                if sum(1 for x in samples if x["sub"] == s.name) < 2:
                    samples.append({"sub": s.name, "case": sm})
            if r["trivial_sample"] is not None and not any(x["sub"] == s.name for x in trivial_samples):
                trivial_samples.append({"sub": s.name, "trivial": True, "case": r["trivial_sample"]})
    if not samples:
        samples = trivial_samples[:3]

    # generator sanity (thorough): a class that matters being empty is a harness problem
    missing = []
    if a.tier == "thorough" and not fails and not a.only:
        for i in idx:
            s = subs[i]
            for c in s.required_classes:
                if per_sub[s.name]["classes"].get(c, 0) == 0:
                    missing.append(f"{s.name}/{c}")

    wall = time.time() - t0
    rc = 0
    lines = []
    open_entries = findings.open_for(prop)
    for e in open_entries:
        lines.append(f"KNOWN-FINDING: property={prop} {e['id']} {e['what']} (hits this run: {known.get(e['id'], 0)})")
    for sig, rec in sorted(fails.items()):
        path = "-" if a.no_replay_file else write_replay(prop, fail_sub[sig], sig, rec)
        lines.append(f"violation: {sig}: {rec['what']}")
        lines.append(f"VIOLATION property={prop} replay={path}")
        rc = 1
    if errors and rc == 0:
        rc = 2
    if missing and rc == 0:
        rc = 2

    if not a.no_evidence and not a.only:
        ev = {
            "property_id": prop, "tier": a.tier, "seed": base_seed, "level": "exploration",
            "coverage": {
                "evaluations": evaluations,
                "distinct_nontrivial": len(all_nontrivial) + nontrivial_total,
                "rule": getattr(mod, "RULE", ""),
                "samples": samples,
                "exhaustive": bool(per_sub) and all(v["exhaustive"] for v in per_sub.values()),
                "subchecks": per_sub,
                "regress_cases_run": reg["ran"],
                "known_finding_hits": dict(known),
                "known_finding_examples": known_example,
                "cases_skipped_by_time_budget": skipped_time,
                "harness_errors": len(errors),
            },
            "assumptions": list(getattr(mod, "ASSUMPTIONS", [])),
            "wall_s": round(wall, 2),
            "violations": len(fails),
        }
        os.makedirs(os.path.join(VERIF_DIR, "evidence"), exist_ok=True)
        with open(os.path.join(VERIF_DIR, "evidence", f"{prop}.json"), "w") as f:
            json.dump(ev, f, indent=1, sort_keys=True, default=str)
            f.write("\n")

    print(f"{prop} tier={a.tier} seed={base_seed} evaluations={evaluations} "
          f"distinct_nontrivial={len(all_nontrivial) + nontrivial_total} wall={wall:.1f}s")
    for name, v in per_sub.items():
        print(f"  {name}: evals={v['evaluations']} nontrivial={v['distinct_nontrivial']} "
              f"exhaustive={v['exhaustive']} wall={v['max_shard_wall_s']}s")
        if os.environ.get("VERIF_VERBOSE"):
            for k, c in v["classes"].items():
                print(f"      {k}: {c}")
    for ln in lines:
        print(ln)
    for e in errors[:3]:
        print("HARNESS-ERROR in shard", e["sub"], e["shard"])
        print(e["error"])
    if missing:
        print("HARNESS-ERROR generator never produced required classes:", ", ".join(missing))
    return rc
