"""Independent XMAP text parser (header-driven, no src/ imports)."""
from __future__ import annotations

import re

# a minus sign is accepted syntactically: a negative label number is then judged by the checks (no label of any map, C01 / C02)
# instead of being set aside as a malformed file
PAIR = re.compile(r"\((-?\d+),(-?\d+)\)")
ALIGNMENT = re.compile(r"(\(-?\d+,-?\d+\))*")


class XmapFormatError(Exception):
    pass


def parse(text):
    """-> dict(header_lines=[...], columns=[...], types=[...], records=[dict...]).

    Each record maps column name -> string, plus 'pairs' (list of (ref, qry) ints) and 'line'.
    Raises XmapFormatError when the text is not a well-formed XMAP file."""
    lines = text.split("\n")
    if lines and lines[-1] == "":
        lines.pop()
    header, columns, types, records = [], None, None, []
    for ln, line in enumerate(lines, 1):
        if line.startswith("#"):
            if records:
                raise XmapFormatError(f"line {ln}: comment line after data")
            header.append(line)
            if line.startswith("#h"):
                columns = re.split(r"\s+", line.strip())[1:]
            elif line.startswith("#f"):
                types = re.split(r"\s+", line.strip())[1:]
            continue
        if columns is None or types is None:
            raise XmapFormatError(f"line {ln}: data before #h/#f header lines")
        fields = line.split("\t")
        if len(fields) != len(columns):
            raise XmapFormatError(f"line {ln}: {len(fields)} fields, header names {len(columns)} columns")
        rec = dict(zip(columns, fields))
        al = rec.get("Alignment", "")
        if not ALIGNMENT.fullmatch(al):
            raise XmapFormatError(f"line {ln}: malformed Alignment {al[:60]!r}")
        rec["pairs"] = [(int(a), int(b)) for a, b in PAIR.findall(al)]
        rec["line"] = line
        records.append(rec)
    if columns is None or types is None:
        raise XmapFormatError("no #h / #f header lines")
    if len(columns) != len(types):
        raise XmapFormatError("#h and #f name different numbers of columns")
    return {"header_lines": header, "columns": columns, "types": types, "records": records}


def strip_volatile(text):
    """drop the header lines that echo host, arguments and absolute input paths"""
    return "\n".join(l for l in text.split("\n")
                     if not (l.startswith("# coma ") or l.startswith("# hostname=")
                             or l.startswith("# Reference Maps From:") or l.startswith("# Query Maps From:")))
