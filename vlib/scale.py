"""Inputs with hundreds of molecules (shared by C05, C08, C09, C10).

Small generated inputs never reach batch sizes, chunk sizes or per-run counters (a task per 128 / 256 queries, side
files rewritten per batch, flags set for the first batch only).  These cases have 257-400 query molecules cut from one
reference of a few hundred labels; everything is built from a handful of draws so that Hypothesis stays cheap.
"""
from __future__ import annotations

from hypothesis import strategies as st

from .gen_maps import r1


def _reference(draw, rid, n, aperiodic=False):
    base = draw(st.lists(st.integers(2500, 14000), min_size=24, max_size=40))
    gaps = [base[i % len(base)] + (i * i * 31 + 17 * i) % 1500 for i in range(n - 1)]
    if aperiodic:
        # the line above is the drawn pattern repeated with small modulations: a window of 20 labels then fits thousands of
        # places almost equally well.  Here every gap comes from a 64-bit congruential sequence started at a drawn number
        # (part of the case, so replay and shrinking are unaffected)
        x = draw(st.integers(1, 2 ** 32))
        gaps = []
        for _ in range(n - 1):
            x = (x * 6364136223846793005 + 1442695040888963407) % 2 ** 64
            gaps.append(2500 + (x >> 33) % 11500)
    lab = [float(draw(st.integers(0, 20000)))]
    for g in gaps:
        lab.append(lab[-1] + g)
    return {"id": rid, "length": lab[-1] + 5000.0, "labels": lab}


@st.composite
def many_queries_case(draw, two_part=False, counts=(257, 300, 385)):
    """one reference of 280-360 labels (optionally a second one), N exact copies of windows of 12-16 labels; with
    two_part every molecule is two such windows from different places (the first pass places one, the second pass the
    other), so there are more than a hundred second-pass fragments"""
    nref = draw(st.integers(280, 360))
    rid = draw(st.sampled_from([1, 1, 7, 2 ** 32 + 1]))
    refs = [_reference(draw, rid, nref)]
    n = draw(st.sampled_from(list(counts)))
    id0 = draw(st.sampled_from([1, 1, 1000, 10 ** 6]))
    k = draw(st.integers(12, 16))
    mul = draw(st.sampled_from([7, 11, 13, 17]))
    lab = refs[0]["labels"]
    queries = []
    for i in range(n):
        a = (i * mul) % (nref - 2 * k - 2)
        w = lab[a:a + k]
        pos = [p - w[0] for p in w]
        if two_part:
            b = (a + nref // 2) % (nref - k - 1)
            w2 = lab[b:b + k + 2]
            gap = 9000.0 + (i % 7) * 1000
            pos = pos + [pos[-1] + gap + (p - w2[0]) for p in w2]
        if i % 3 == 1:
            top = pos[-1]
            pos = [top - p for p in pos[::-1]]
        queries.append({"id": id0 + i, "length": r1(pos[-1] + 1), "labels": [r1(p) for p in pos], "truth": {"kind": "window", "i": a}})
    return {"refs": refs, "queries": queries, "mode": draw(st.sampled_from(["best", "all", "separate", "joined"])), "args": {},
            "select": sorted({queries[-1]["id"], queries[-2]["id"], queries[-3]["id"], queries[0]["id"], queries[n // 2]["id"],
                              queries[draw(st.integers(0, n - 1))]["id"], queries[256 if n > 256 else n - 1]["id"]})}


@st.composite
def huge_reference_case(draw, modes=("best", "separate"), straddle=None):
    """one chromosome-sized reference of 33 000-36 000 labels (label numbers beyond 2^15 - 1, coordinates near 200 Mbp)
    and 5 molecules cut from it: below, across and above label 32 767, one of them reversed"""
    nref = draw(st.sampled_from([33000, 34000, 36000]))
    ref = _reference(draw, draw(st.sampled_from([1, 1, 23])), nref, aperiodic=True)
    lab = ref["labels"]
    k = draw(st.integers(18, 30))
    if straddle is None:
        straddle = draw(st.booleans())
    starts = [draw(st.integers(100, 30000)), 32767 - draw(st.integers(1, k - 2)) if straddle else 32767 + draw(st.integers(0, 3)), draw(st.integers(32768, nref - k - 1)),
              nref - k - draw(st.integers(0, 40)), draw(st.integers(32768, nref - k - 1))]
    queries = []
    for i, a in enumerate(starts):
        w = lab[a:a + k]
        pos = [p - w[0] for p in w]
        if i % 2 == 1:
            pos = [pos[-1] - p for p in pos[::-1]]
        queries.append({"id": i + 1, "length": r1(pos[-1] + 1), "labels": [r1(p) for p in pos], "truth": {"kind": "window", "i": a}})
    return {"refs": [ref], "queries": queries, "mode": draw(st.sampled_from(list(modes))), "args": {}}


@st.composite
def many_references_case(draw):
    """65-140 reference maps (a fragmented assembly: more maps than any batch of 32 / 64 holds): most are short contigs,
    two to five of them, anywhere in the file, carry copies of the query's label pattern of different fidelity, so the
    query's best seeds and best candidate come from maps far apart in the list"""
    n = draw(st.sampled_from([70, 100, 129, 140, 200]))
    lab = _reference(draw, 0, 60)["labels"]
    k = draw(st.integers(14, 22))
    a = draw(st.integers(0, 60 - k - 1))
    qpos = [p - lab[a] for p in lab[a:a + k]]
    # one carrier among the first 32 / 64 maps, one beyond them, and up to three more anywhere
    carriers = [draw(st.integers(0, 31)), draw(st.integers(64, n - 1))] + draw(st.lists(st.integers(0, n - 1), max_size=3))
    single = draw(st.booleans())       # the early carrier holds one copy only: fewer seeds than peaksCount from the first maps
    # 'short-only': every other map is shorter than the query and yields no seed at all, so the first 32 / 64 maps may give
    # the query fewer seeds than peaksCount
    short_only = draw(st.booleans())
    refs = []
    for i in range(n):
        if i in carriers:
            labels, x = [], 5000.0 + 1000 * draw(st.integers(0, 20))
            for c in range(1 if (single and i == carriers[0]) else draw(st.integers(1, 2))):
                jit = draw(st.sampled_from([0, 40, 120, 300]))
                drop = draw(st.integers(0, 2))
                for j, p in enumerate(qpos):
                    if drop and j % 7 == 2 + c + drop:
                        continue
                    labels.append(x + p + ((j * 37 + c * 11) % (2 * jit + 1)) - jit)
                x = labels[-1] + 30000 + 1000 * draw(st.integers(0, 9))
            for e in range(draw(st.integers(0, 6))):
                labels.append(labels[-1] + 7000 + 900 * e)
        elif i % 9 == 4 and not short_only:
            labels = [4000.0 + j * (6100 + (i * 131) % 2900) + (j * j * 53) % 1700 for j in range(30)]
        else:
            labels = [3000.0 + j * (5200 + (i * 97) % 2100) for j in range(3 + i % 4)]
        labels = sorted(set(r1(p) for p in labels))
        refs.append({"id": i + 1, "length": r1(labels[-1] + 3000.0), "labels": labels})
    queries = []
    for qi in range(draw(st.integers(1, 3))):
        pos = qpos if qi == 0 else qpos[qi:k - qi]
        pos = [p - pos[0] for p in pos]
        if draw(st.booleans()):
            pos = [pos[-1] - p for p in pos[::-1]]
        queries.append({"id": qi + 1, "length": r1(pos[-1] + 1), "labels": [r1(p) for p in pos], "truth": {"kind": "window", "i": a}})
    return {"refs": refs, "queries": queries, "mode": draw(st.sampled_from(["best", "separate"])),
            "args": draw(st.sampled_from([{}, {}, {"-p": 5}, {"-p": 8}]))}


def short(case):
    out = {k: v for k, v in case.items() if k not in ("refs", "queries")}
    out["refs"] = [{"id": r["id"], "n_labels": len(r["labels"])} for r in case["refs"]]
    out["n_queries"] = len(case["queries"])
    out["first_query"] = case["queries"][0]
    return out
