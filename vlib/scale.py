"""Inputs with hundreds of molecules (shared by C05, C08, C09, C10).

Small generated inputs never reach batch sizes, chunk sizes or per-run counters (a task per 128 / 256 queries, side
files rewritten per batch, flags set for the first batch only).  These cases have 257-400 query molecules cut from one
reference of a few hundred labels; everything is built from a handful of draws so that Hypothesis stays cheap.
"""
from __future__ import annotations

from hypothesis import strategies as st

from .gen_maps import r1


def _reference(draw, rid, n):
    base = draw(st.lists(st.integers(2500, 14000), min_size=24, max_size=40))
    gaps = [base[i % len(base)] + (i * i * 31 + 17 * i) % 1500 for i in range(n - 1)]
    lab = [float(draw(st.integers(0, 20000)))]
    for g in gaps:
        lab.append(lab[-1] + g)
    return {"id": rid, "length": lab[-1] + 5000.0, "labels": lab}


@st.composite
def many_queries_case(draw, two_part=False, counts=(257, 300, 385)):
    """one reference of 280-360 labels (optionally a second one), N exact copies of windows of 12-16 labels; with
    two_part every molecule is two such windows from different places (the first pass places one, the second pass the
    other), so there are more than a hundred second-pass fragments"""
    nref = draw(st.integers(280, 360))
    rid = draw(st.sampled_from([1, 1, 7, 2 ** 32 + 1]))
    refs = [_reference(draw, rid, nref)]
    n = draw(st.sampled_from(list(counts)))
    id0 = draw(st.sampled_from([1, 1, 1000, 10 ** 6]))
    k = draw(st.integers(12, 16))
    mul = draw(st.sampled_from([7, 11, 13, 17]))
    lab = refs[0]["labels"]
    queries = []
    for i in range(n):
        a = (i * mul) % (nref - 2 * k - 2)
        w = lab[a:a + k]
        pos = [p - w[0] for p in w]
        if two_part:
            b = (a + nref // 2) % (nref - k - 1)
            w2 = lab[b:b + k + 2]
            gap = 9000.0 + (i % 7) * 1000
            pos = pos + [pos[-1] + gap + (p - w2[0]) for p in w2]
        if i % 3 == 1:
            top = pos[-1]
            pos = [top - p for p in pos[::-1]]
        queries.append({"id": id0 + i, "length": r1(pos[-1] + 1), "labels": [r1(p) for p in pos], "truth": {"kind": "window", "i": a}})
    return {"refs": refs, "queries": queries, "mode": draw(st.sampled_from(["best", "all", "separate", "joined"])), "args": {},
            "select": sorted({queries[-1]["id"], queries[-2]["id"], queries[-3]["id"], queries[0]["id"], queries[n // 2]["id"],
                              queries[draw(st.integers(0, n - 1))]["id"], queries[256 if n > 256 else n - 1]["id"]})}


def short(case):
    out = {k: v for k, v in case.items() if k not in ("refs", "queries")}
    out["refs"] = [{"id": r["id"], "n_labels": len(r["labels"])} for r in case["refs"]]
    out["n_queries"] = len(case["queries"])
    out["first_query"] = case["queries"][0]
    return out
