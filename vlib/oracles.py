"""Oracles shared by several checks (pure functions, no src/ imports)."""
from __future__ import annotations


def matching_problem(pairs, orientation, n_ref=None, n_qry=None, bounds=True):
    """None if `pairs` (listed order) is a valid matching, else (signature, description)."""
    if len(pairs) < 1:
        return ("record-without-pairs", "record lists no pair")
    if orientation not in ("+", "-"):
        return ("orientation-invalid", f"orientation {orientation!r}")
    if bounds:
        for r, q in pairs:
            if not (1 <= r <= n_ref):
                return ("reference-label-out-of-range", f"pair ({r},{q}): reference has {n_ref} labels")
            if not (1 <= q <= n_qry):
                return ("query-label-out-of-range", f"pair ({r},{q}): query has {n_qry} labels")
    rs = [r for r, _ in pairs]
    qs = [q for _, q in pairs]
    if len(set(rs)) != len(rs):
        return ("reference-label-used-twice", f"reference label used twice: {sorted(r for r in set(rs) if rs.count(r) > 1)[:5]}")
    if len(set(qs)) != len(qs):
        return ("query-label-used-twice", f"query label used twice: {sorted(q for q in set(qs) if qs.count(q) > 1)[:5]}")
    for (r1, q1), (r2, q2) in zip(pairs, pairs[1:]):
        if not r2 > r1:
            return ("reference-labels-not-ascending", f"pairs ({r1},{q1}),({r2},{q2}) not in ascending reference order")
        if orientation == "+" and not q2 > q1:
            return ("query-labels-not-monotone", f"'+' record: pairs ({r1},{q1}),({r2},{q2}) do not ascend on the query")
        if orientation == "-" and not q2 < q1:
            return ("query-labels-not-monotone", f"'-' record: pairs ({r1},{q1}),({r2},{q2}) do not descend on the query")
    return None


def valid_matching(pairs, orientation, n_ref=None, n_qry=None, bounds=True):
    return matching_problem(pairs, orientation, n_ref, n_qry, bounds) is None
