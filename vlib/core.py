"""Core types shared by every check: Violation, Sub (a sub-check), helpers.

Nothing here imports the code under test.
"""
from __future__ import annotations

import hashlib
import json
import os
import sys
import traceback
from dataclasses import dataclass, field
from typing import Any, Callable, Iterable, Optional

VERIF_DIR = os.path.dirname(os.path.dirname(os.path.abspath(__file__)))
REPO_DIR = os.environ.get("VERIF_REPO") or "/repo"


def install_repo_path():
    """Put the repository's *current working tree* first on sys.path (no build step exists
    for this pure-Python project; importing from the tree is the rebuild)."""
    sys.dont_write_bytecode = True
    for p in (os.path.join(REPO_DIR, "sv"), REPO_DIR):
        if p in sys.path:
            sys.path.remove(p)
        sys.path.insert(0, p)


class Violation(Exception):
    """The property does not hold on this case.

    signature: short structural identification of the root cause (used to match known findings
               and to bucket failures), e.g. 'crash:TypeError@workflow_coordinator.py:__align'
               or 'hitenum-empty-for-one-pair'.
    what:      one-line human description.
    """

    def __init__(self, signature: str, what: str, detail: Any = None):
        super().__init__(f"{signature}: {what}")
        self.signature = signature
        self.what = what
        self.detail = detail


class HarnessError(Exception):
    """The harness cannot do its job (missing attribute it substitutes, generator bug...)."""


def req(cond: bool, signature: str, what: str, detail: Any = None):
    if not cond:
        raise Violation(signature, what() if callable(what) else what, detail)


def innermost_repo_frame(exc: BaseException) -> str:
    """file:function of the innermost traceback frame that lies inside the repository."""
    tb = traceback.extract_tb(exc.__traceback__)
    repo = os.path.realpath(REPO_DIR)
    best = None
    for fr in tb:
        fn = os.path.realpath(fr.filename)
        if fn.startswith(repo + os.sep):
            best = f"{os.path.relpath(fn, repo)}:{fr.name}"
    if best is None and tb:
        fr = tb[-1]
        best = f"{os.path.basename(fr.filename)}:{fr.name}"
    return best or "?"


def crash_signature(exc: BaseException) -> str:
    return f"crash:{type(exc).__name__}@{innermost_repo_frame(exc)}"


def sut(fn: Callable, *a, **kw):
    """Call code under test; an exception escaping it becomes a Violation with a crash signature
    (use only where the property says the call must succeed on this in-domain input)."""
    try:
        return fn(*a, **kw)
    except Violation:
        raise
    except Exception as e:  # noqa: BLE001 - deliberate: bucketing by origin
        raise Violation(crash_signature(e), f"{type(e).__name__}: {e}"[:300],
                        traceback.format_exc()[-2000:]) from None


def canon(case: Any) -> str:
    return json.dumps(case, sort_keys=True, separators=(",", ":"), default=_default)


def _default(o):
    if isinstance(o, (set, frozenset)):
        return sorted(o)
    if isinstance(o, tuple):
        return list(o)
    if hasattr(o, "item"):
        return o.item()
    raise TypeError(type(o))


def digest(case: Any) -> int:
    return int.from_bytes(hashlib.sha1(canon(case).encode()).digest()[:8], "big")


def derive_seed(*parts) -> int:
    h = hashlib.sha1(":".join(str(p) for p in parts).encode()).digest()
    return int.from_bytes(h[:4], "big")


@dataclass
class Sub:
    """One generated-input search with its oracle.

    kind 'hyp':  strategy() -> hypothesis strategy of JSON-serialisable cases (called in worker)
    kind 'enum': enumerate(shard, nshards) -> iterator over that shard's part of a finite space
    kind 'fuzz': strategy() as for 'hyp', driven by atheris (libFuzzer) with coverage feedback from the code under test
    check(case) -> dict(nontrivial=bool, classes=[str,...])  or raises Violation
    """
    name: str
    kind: str
    check: Callable[[Any], dict]
    strategy: Optional[Callable[[], Any]] = None
    enumerate: Optional[Callable[[int, int], Iterable[Any]]] = None
    examples: int = 1000            # total over all shards (hyp)
    shrink_budget: Optional[int] = 400   # oracle calls after the first failure; None = unlimited
    time_budget_s: float = 600.0    # per shard; hitting it = inconclusive for the rest, not a failure
    exhaustive: bool = False        # enum: the listed space is enumerated completely
    shards: int = 16
    describe: str = ""
    sample_filter: Optional[Callable[[Any], Any]] = None  # shorten a case for evidence samples
    required_classes: tuple = ()    # classes that must be > 0 (thorough tier: generator sanity)
    # kind 'fuzz': coverage-guided campaign (atheris/libFuzzer) over the bytes behind strategy(); the oracle is check
    skip_first: bool = False        # hyp: do not evaluate the first generated example of a shard (Hypothesis starts with the
    #                                 minimal one; subs with one or two expensive examples want a typical one instead)
    fuzz_runs: int = 20000          # libFuzzer executions per shard
    fuzz_include: tuple = ("src",)  # module prefixes instrumented for coverage feedback


def fuzz_variant(sub: Sub, runs: int, include=("src",)) -> Sub:
    """The same generator and oracle as `sub`, driven by atheris (libFuzzer) with coverage feedback from the code
    under test instead of Hypothesis' own random search."""
    import dataclasses
    return dataclasses.replace(sub, name=sub.name + "-atheris", kind="fuzz", fuzz_runs=runs, fuzz_include=tuple(include),
                               required_classes=(), time_budget_s=300.0, describe=("coverage-guided (atheris/libFuzzer) search over the bytes behind the '"
                                                              + sub.name + "' generator, same oracle"))
