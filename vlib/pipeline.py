"""Drivers for the real composed pipeline.

in-process:  Program(Args.parse(argv), extensions=[Recorder]).run() with the parallel map of
             src.workflow_coordinator replaced (harness side) by an ordered sequential map.
CLI:         python -c 'from src.program import main; main()' argv   (real process pool)

A pipeline case is JSON:
  {"refs": [map...], "queries": [map...], "mode": "best|separate|joined|all", "args": {"-sp": 1000, ...},
   "ref_rows": perm|None, "qry_rows": perm|None, ...}
with map = {"id", "length", "labels"}.
"""
from __future__ import annotations

import collections
import os
import shutil
import subprocess
import sys
import tempfile
import traceback

from . import cmap_text, xmap_text
from .core import REPO_DIR, HarnessError, crash_signature

_PATCHED = False
PAR_NAMES = ("p_imap", "p_uimap", "p_map", "p_umap")


def _seq_imap(function, *iterables, **kwargs):
    return map(function, *iterables)


def _seq_map(function, *iterables, **kwargs):
    return list(map(function, *iterables))


def patch_parallel_map():
    """Replace the pathos-backed parallel map used by the workflow coordinator by a sequential one
    in THIS process only (so Extension messages reach the Recorder and 50 ms cases are not dominated
    by pool start-up).  The real pool is exercised by the CLI driver."""
    global _PATCHED
    if _PATCHED:
        return
    import src.workflow_coordinator as wc
    found = [n for n in PAR_NAMES if hasattr(wc, n)]
    if not found:
        raise HarnessError("src.workflow_coordinator no longer imports a p_tqdm parallel map; in-process driver cannot substitute it")
    for n in found:
        setattr(wc, n, _seq_map if n in ("p_map", "p_umap") else _seq_imap)
    _PATCHED = True


_recorder_cls = None


def recorder_class():
    global _recorder_cls
    if _recorder_cls is None:
        from src.extensions.extension import Extension

        class Recorder(Extension):
            messageType = object

            def __init__(self):
                self.messages = []

            def canHandle(self, message):
                return True

            def handle(self, message):
                self.messages.append(message)

        _recorder_cls = Recorder
    return _recorder_cls


def argv_of(case, ref_path, qry_path, out_path, mode=None, cpus=1):
    argv = ["-r", ref_path, "-q", qry_path, "-o", out_path, "-oM", mode or case.get("mode", "best"), "-pb"]
    if cpus is not None:
        argv += ["-c", str(cpus)]
    for k, v in sorted((case.get("args") or {}).items()):
        if isinstance(v, list):
            argv += [k] + [str(x) for x in v]
        else:
            argv += [k, str(v)]
    return argv


def model(maps):
    """id -> model with derived trimmed geometry, for molecules with >=1 label (others are skipped by COMA)"""
    out = {}
    for m in maps:
        if m["labels"]:
            lab = [float(f"{p:.1f}") for p in m["labels"]]
            out[m["id"]] = {"id": m["id"], "labels": lab, "length": float(f"{m['length']:.1f}"), "first": lab[0],
                            "last": lab[-1], "n": len(lab)}
    return out


class Run:
    def __init__(self, case, mode):
        self.case = case
        self.mode = mode
        self.crashed = False
        self.crash_signature = None
        self.crash_text = None
        self.raw = {}        # suffix -> text
        self.files = collections.defaultdict(list)      # suffix -> records (a file that was not written reads as no records;
        #                                                    C07 and C08 assert the file set itself)
        self.parsed = {}
        self.format_error = None
        self.rows = None
        self.messages = []
        self.program = None
        self.refs = model(case["refs"])
        self.queries = model(case["queries"])
        self.returncode = None
        self.stderr = ""
        self.workdir = None

    def parse_outputs(self):
        for suf, text in self.raw.items():
            try:
                p = xmap_text.parse(text)
            except xmap_text.XmapFormatError as e:
                self.format_error = f"{suf}: {e}"
                self.files[suf] = []
                continue
            self.parsed[suf] = p
            self.files[suf] = p["records"]


def _write_inputs(case, d):
    refp, qryp = os.path.join(d, "ref.cmap"), os.path.join(d, "qry.cmap")
    with open(refp, "w") as f:
        f.write(cmap_text.cmap_text(case["refs"], case.get("ref_rows"), case.get("ref_cols"), case.get("ref_extra", 0)))
    if case.get("same_file"):
        # self-alignment: one CMAP file named as reference and as query (case["queries"] must equal case["refs"])
        return refp, refp
    with open(qryp, "w") as f:
        f.write(cmap_text.cmap_text(case["queries"], case.get("qry_rows"), case.get("qry_cols"), case.get("qry_extra", 0)))
    return refp, qryp


def outfile_of(case, outname="out"):
    """name of the main output file of a run: case["outfile"] (the generators vary extension and spelling, since the
    additional files are named after it) or <outname>.xmap; with an explicit outname only the extension is taken over"""
    of = case.get("outfile") or "out.xmap"
    if outname != "out":
        return outname + os.path.splitext(of)[1]
    return of


def _collect(run, d, outfile="out.xmap"):
    """main file = outfile; additional files = <root>_1<ext>, <root>_2<ext> (os.path.splitext, as the option help
    describes them); any other file whose name starts with <root> is recorded under '?<name>' (unexpected)"""
    root, ext = os.path.splitext(outfile)
    names = {outfile: "main", f"{root}_1{ext}": "_1", f"{root}_2{ext}": "_2"}
    for fn in sorted(os.listdir(d)):
        if fn in names or (fn.startswith(root) and fn not in ("ref.cmap", "qry.cmap") and os.path.isfile(os.path.join(d, fn))):
            with open(os.path.join(d, fn)) as f:
                run.raw[names.get(fn, "?" + fn)] = f.read()
    run.parse_outputs()


EXPECTED_FILES = {"best": {"main"}, "separate": {"main", "_1"}, "joined": {"main", "_1"}, "all": {"main", "_1", "_2"}}


def run_case(case, mode=None, keep_dir=False, record=True):
    """in-process run; never raises for failures of the code under test (see Run.crashed)"""
    from src.args import Args
    from src.program import Program
    patch_parallel_map()
    mode = mode or case.get("mode", "best")
    run = Run(case, mode)
    d = tempfile.mkdtemp(prefix="coma_case_")
    run.workdir = d
    args = None
    try:
        refp, qryp = _write_inputs(case, d)
        outfile = outfile_of(case)
        outp = os.path.join(d, outfile)
        argv = argv_of(case, refp, qryp, outp, mode)
        try:
            args = Args.parse(argv)
        except SystemExit as e:
            raise HarnessError(f"argparse rejected harness argv {argv}: {e}")
        rec = recorder_class()() if record else None
        try:
            prog = Program(args, [rec] if rec else None)
            run.program = prog
            result = prog.run()
            run.rows = result.rows
        except Exception as e:  # noqa: BLE001 - deliberate: the caller decides what a crash means
            run.crashed = True
            run.crash_signature = crash_signature(e)
            run.crash_text = f"{type(e).__name__}: {e}"[:300] + "\n" + traceback.format_exc()[-1500:]
        finally:
            for f in (args.referenceFile, args.queryFile, args.outputFile):
                try:
                    f.close()
                except Exception:  # noqa: BLE001
                    pass
            import gc
            gc.collect()
        if rec:
            run.messages = rec.messages
        _collect(run, d, outfile)
    finally:
        if not keep_dir:
            shutil.rmtree(d, ignore_errors=True)
            run.workdir = None
    return run


CLI_SNIPPET = ("import sys; sys.dont_write_bytecode=True; sys.path.insert(0, {repo!r}); "
               "from src.program import main; main()")


def run_cli(case, mode=None, cpus=1, launcher=None, env_extra=None, timeout=600, workdir=None, outname="out"):
    """real entry point in a subprocess (real process pool).  launcher: path of a python file to run
    instead of the plain snippet (it must end up calling src.program.main)."""
    mode = mode or case.get("mode", "best")
    run = Run(case, mode)
    d = workdir or tempfile.mkdtemp(prefix="coma_cli_")
    try:
        refp, qryp = os.path.join(d, "ref.cmap"), os.path.join(d, "qry.cmap")
        if not (workdir and os.path.exists(refp)):
            _write_inputs(case, d)
        outfile = outfile_of(case, outname)
        # the CLI is started in the case directory and given the output as a bare file name (a path without a directory
        # part); the inputs are absolute paths, or - with case["stdin_query"] - the query file arrives on a pipe ("-q -")
        outp = outfile
        stdin_text = None
        if case.get("stdin_query") and not case.get("same_file"):
            with open(qryp) as f:
                stdin_text = f.read()
            qryp = "-"
        argv = argv_of(case, refp, qryp, outp, mode, cpus)
        env = dict(os.environ, PYTHONHASHSEED=os.environ.get("PYTHONHASHSEED", "0"), PYTHONDONTWRITEBYTECODE="1",
                   OMP_NUM_THREADS="1", OPENBLAS_NUM_THREADS="1", VERIF_REPO=REPO_DIR)
        env.update(env_extra or {})
        if launcher:
            cmd = [sys.executable, launcher] + argv
        else:
            cmd = [sys.executable, "-c", CLI_SNIPPET.format(repo=REPO_DIR)] + argv
        try:
            p = subprocess.run(cmd, env=env, capture_output=True, text=True, timeout=timeout, cwd=d, input=stdin_text)
        except subprocess.TimeoutExpired:
            raise HarnessError(f"CLI run exceeded {timeout}s")
        run.returncode = p.returncode
        run.stderr = p.stderr
        if p.returncode != 0 or "Traceback (most recent call last)" in p.stderr:
            run.crashed = True
            tail = [l for l in p.stderr.strip().splitlines() if l.strip()]
            run.crash_text = "\n".join(tail[-12:])
            last = tail[-1] if tail else f"exit {p.returncode}"
            frame = "?"
            for l in tail:
                if l.strip().startswith("File ") and "/src/" in l:
                    frame = l.strip().split("/src/")[-1].replace('", line ', ":").split(",")[0] + ":" + l.strip().rsplit(" in ", 1)[-1]
            run.crash_signature = f"cli-crash:{last.split(':')[0]}@{frame}"
        _collect(run, d, outfile)
    finally:
        if not workdir:
            shutil.rmtree(d, ignore_errors=True)
    return run
