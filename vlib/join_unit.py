"""Unit-level driver of the first/second-pass join (shared by C01, C03, C08).

The end-to-end runs reach the join only through seeding and refinement (a few joined records per
hundred cases).  Here the same code path is driven directly, with the project's own pieces in the
project's own order:

  first   = Aligner.align(reference, whole query, peaks of the first diagonal, strand)
  frags   = first.getUnalignedFragments([query])                 (head / tail fragments, real code)
  second  = Aligner.align(reference, fragment, peaks of the second diagonal, strand).setAlignedRest(True)
  joined, separate = AlignmentResults.resolve([first, second], maxDifference)
  (and resolve([second, second]): in 'best' mode the better second-pass row meets itself)

case = gen_unit.aligner_case (...) + {"peaks2": [...], "maxdiff": int, "strand2": bool}
"""
from __future__ import annotations

from hypothesis import strategies as st

from . import gen_unit
from .core import sut


def pairs_of(row):
    return [(p.reference.siteId, p.query.siteId) for p in row.alignedPairs]


def snapshot(row):
    return (pairs_of(row), [round(float(s.segmentScore), 6) for s in row.segments if s.positions], round(float(row.confidence), 6),
            row.orientation, row.referenceId, row.queryId)


class JoinRun:
    def __init__(self):
        self.first = None
        self.steps = []      # dicts: second, joined, separate, before (snapshots), kind


def run(case) -> JoinRun:
    from src.alignment.alignment_results import AlignmentResults
    ref, qry = gen_unit.build_maps(case)
    aligner = gen_unit.build_aligner(case["params"])
    peaks = gen_unit.build_peaks(case)
    peaks2 = gen_unit.build_peaks(dict(case, peaks=case["peaks2"]))
    out = JoinRun()
    first = sut(aligner.align, ref, qry, peaks, case["rev"])
    out.first = first
    if not first.alignedPairs:
        return out
    frags = sut(first.getUnalignedFragments, [qry])
    out.fragments = frags
    for f in frags:
        for rev2 in ([case["rev"], not case["rev"]] if case.get("strand2") else [case["rev"]]):
            second = sut(aligner.align, ref, f, peaks2, rev2)
            if not second.alignedPairs:
                continue
            second = second.setAlignedRest(True)
            before = (snapshot(first), snapshot(second))
            joined, separate = sut(AlignmentResults.resolve, [first, second], case["maxdiff"])
            out.steps.append({"kind": "first+second", "a": first, "b": second, "joined": joined, "separate": separate, "before": before,
                              "fragment": (f.shift, len(f.positions))})
            # threshold probe: the same two rows at maxDifference just below / at / just above their actual reference gap
            # (coordinates have one decimal, maxDifference is whole base pairs)
            gap = max(first.referenceStartPosition, second.referenceStartPosition) - min(first.referenceEndPosition, second.referenceEndPosition)
            if case.get("probe") and gap > 1:
                import math
                for md in sorted({math.floor(gap) - 1, math.floor(gap), math.ceil(gap)}):
                    before = (snapshot(first), snapshot(second))
                    joined, separate = sut(AlignmentResults.resolve, [first, second], md)
                    out.steps.append({"kind": "first+second at the gap threshold", "a": first, "b": second, "joined": joined, "separate": separate,
                                      "before": before, "fragment": (f.shift, len(f.positions)), "maxdiff": md})
            before = (snapshot(second), snapshot(second))
            joined, separate = sut(AlignmentResults.resolve, [second, second], case["maxdiff"])
            out.steps.append({"kind": "second+itself", "a": second, "b": second, "joined": joined, "separate": separate, "before": before,
                              "fragment": (f.shift, len(f.positions))})
    return out


@st.composite
def join_case(draw):
    """a molecule with an indel (or a slip of exactly one inter-label distance) so that the first pass, seeded on the
    head's diagonal only, leaves a fragment that the second pass places on the tail's diagonal"""
    n = draw(st.integers(14, 45))
    kind = draw(st.sampled_from(["real", "real", "dense", "periodic"]))
    if kind == "periodic":
        per = draw(st.integers(1000, 6000))
        gaps = [per] * (n - 1)
        for j in set(draw(st.lists(st.integers(0, n - 2), max_size=3))):
            gaps[j] = per * draw(st.integers(2, 3))            # a missing label here and there
    else:
        gapst = {"real": st.one_of(st.integers(1500, 9000), st.integers(2000, 30000)), "dense": st.integers(400, 3000)}[kind]
        gaps = draw(st.lists(gapst, min_size=n - 1, max_size=n - 1))
    # labels ahead of the window: reference label numbers then lie well above the query's (a join guard that mixes
    # up the two numberings, or compares a number with a count, is invisible while both run 1..40)
    pre = draw(st.sampled_from([0, 0, 0, 37, 150, 400]))
    lead = [m * 4100 + (m * 37) % 900 for m in range(pre)]
    ref = [(lead[-1] + 4100 if lead else 0) + draw(st.integers(0, 20000))]
    for g in gaps:
        ref.append(ref[-1] + g)
    ref = lead + ref
    k = draw(st.integers(12, min(40, n)))
    i = pre + draw(st.integers(0, n - k))
    win = [p - ref[i] for p in ref[i:i + k]]
    s = draw(st.sampled_from([0, 0, 60, 250]))
    q = [p + (draw(st.integers(-s, s)) if s else 0) for p in win]
    q = sorted(q)
    j = draw(st.integers(4, len(q) - 4))
    mode = draw(st.sampled_from(["indel", "indel", "slip-del", "slip-ins"]))
    if mode == "slip-del":
        sh = -(q[j] - q[j - 1])
    elif mode == "slip-ins":
        sh = q[min(len(q) - 1, j + 1)] - q[j]
    else:
        sh = draw(st.one_of(st.integers(300, 4000), st.integers(1500, 60000))) * draw(st.sampled_from([1, -1]))
        if sh < 0:
            sh = -min(-sh, max(0, int(q[j] - q[j - 1]) - 300))
    q = q[:j] + [p + sh for p in q[j:]]
    drop = set(draw(st.lists(st.integers(0, len(q) - 1), max_size=2)))
    q = [p for n_, p in enumerate(q) if n_ not in drop]
    q = sorted(set(int(round(p)) for p in q))
    lo = q[0]
    q = [p - lo for p in q]
    qlen = q[-1] + 1
    rev = draw(st.booleans())
    true = ref[i] + lo
    if rev:
        q = [q[-1] - p for p in q[::-1]]
    step = draw(st.sampled_from([100, 100, 50]))

    def peaks_around(base, npk):
        out = []
        for o in draw(st.lists(st.integers(-3, 3), min_size=npk, max_size=npk, unique=True)):
            p = (base // step + o) * step + step // 2 - 1
            if p not in out:
                out.append(p)
        return out
    head_first = draw(st.booleans())
    d1, d2 = (true, true - sh) if head_first else (true - sh, true)
    prm = draw(gen_unit.params())
    if draw(st.booleans()):        # CMAP coordinates carry one decimal
        ref = [p + ((p * 7 + 3) % 10) / 10 for p in ref]
    return {"probe": draw(st.booleans()), "ref": ref, "query": q, "qlen": qlen, "rev": rev, "peaks": peaks_around(d1, draw(st.integers(1, 2))),
            "peaks2": peaks_around(d2, draw(st.integers(1, 2))) + (peaks_around(d1, 1) if draw(st.integers(0, 3)) == 0 else []),
            "params": prm, "maxdiff": draw(st.sampled_from([100000, 100000, 20000, 1000, 0])), "strand2": draw(st.integers(0, 3)) == 0,
            "mode": mode}
