"""known_findings.json handling.  The file is committed and never written at run time.

Entry: {"id": "F5", "property": "C15", "status": "open"|"fixed", "signatures": [...],
        "what": "...", "commit": "<sha>" (fixed only)}
An *open* entry whose signature list contains the signature of a violation turns that violation
into a counted KNOWN-FINDING hit.  A *fixed* entry suppresses nothing.
"""
from __future__ import annotations

import json
import os

from .core import VERIF_DIR

PATH = os.path.join(VERIF_DIR, "known_findings.json")


def load():
    if not os.path.exists(PATH):
        return []
    with open(PATH) as f:
        return json.load(f)["findings"]


def open_for(prop: str):
    return [e for e in load() if e["property"] == prop and e["status"] == "open"]


def match(prop: str, signature: str, entries=None):
    for e in (entries if entries is not None else open_for(prop)):
        if signature in e.get("signatures", []):
            return e["id"]
    return None
