"""Unit-level generators around Aligner.align: real label data + synthetic ladders of seed peaks.

case = {"ref": [ints], "query": [ints, first = 0], "qlen": int, "rev": bool, "peaks": [int,...],
        "params": {"sp","dp","su","d","ms","bs","ss","sj"}}
The aligner is wired exactly as WorkflowCoordinatorFactory.create wires it.
"""
from __future__ import annotations

from hypothesis import strategies as st

DEFAULT_PARAMS = {"sp": 1000, "dp": 1.0, "su": -250, "d": 1500, "ms": 1000, "bs": 1200, "ss": 0, "sj": 1.0}


def build_aligner(params):
    from src.alignment.aligner import Aligner, AlignerEngine
    from src.alignment.alignment_position_scorer import AlignmentPositionScorer
    from src.alignment.segment_chainer import SegmentChainer, SequentialityScorer
    from src.alignment.segment_with_resolved_conflicts import AlignmentSegmentConflictResolver
    from src.alignment.segments_factory import AlignmentSegmentsFactory
    p = dict(DEFAULT_PARAMS, **params)
    scorer = AlignmentPositionScorer(p["sp"], p["dp"], p["su"])
    factory = AlignmentSegmentsFactory(p["ms"], p["bs"])
    engine = AlignerEngine(p["d"])
    resolver = AlignmentSegmentConflictResolver(SegmentChainer(SequentialityScorer(p["sj"], p["ss"])))
    return Aligner(scorer, factory, engine, resolver)


def build_maps(case):
    from src.correlation.optical_map import OpticalMap
    ref = OpticalMap(1, int(case["ref"][-1]) + 1000, list(case["ref"]))
    qry = OpticalMap(2, case["qlen"], list(case["query"]), shift=case.get("shift", 0))
    return ref, qry


def build_peaks(case):
    from src.correlation.peak import Peak
    return [Peak(p, 30.0 + k, p - 50, p + 50, 30.0 + k) for k, p in enumerate(case["peaks"])]


@st.composite
def params(draw, weight_default=2):
    out = {}
    space = {"sp": [500, 2000], "dp": [0.5, 2.0, 0.35], "su": [0, -100, -600], "d": [200, 800, 3000, 8000],
             "ms": [1, 500, 2000], "bs": [0, 600, 2500], "ss": [1], "sj": [0.5, 2.0]}
    for k, vals in space.items():
        v = draw(st.sampled_from([None] * weight_default + vals))
        if v is not None:
            out[k] = v
    return out


@st.composite
def aligner_case(draw, min_peaks=1, max_peaks=8, force_params=None):
    n = draw(st.integers(10, 60))
    kind = draw(st.sampled_from(["dense", "real", "real", "repeat"]))
    gapst = {"dense": st.integers(300, 3000), "real": st.one_of(st.integers(1500, 9000), st.integers(2000, 30000)),
             "repeat": st.integers(2000, 9000)}[kind]
    gaps = draw(st.lists(gapst, min_size=n - 1, max_size=n - 1))
    if kind == "repeat":
        w = draw(st.integers(2, 6))
        b = draw(st.integers(0, max(0, len(gaps) - w)))
        gaps = gaps[:b + w] + gaps[b:b + w] * draw(st.integers(1, 4)) + gaps[b + w:]
    ref = [draw(st.integers(0, 20000))]
    for g in gaps:
        ref.append(ref[-1] + g)
    n = len(ref)
    k = draw(st.integers(min(5, n), min(40, n)))
    i = draw(st.integers(0, n - k))
    win = [p - ref[i] for p in ref[i:i + k]]
    stretch = draw(st.sampled_from([100, 100, 94, 97, 103, 106, 88, 112, 115, 85])) / 100
    s = draw(st.sampled_from([0, 60, 250, 600]))
    jit = draw(st.lists(st.integers(-s, s), min_size=k, max_size=k)) if s else [0] * k
    q = [p * stretch + j for p, j in zip(win, jit)]
    drop = set(draw(st.lists(st.integers(0, k - 1), max_size=max(0, k // 4))))
    q = [p for n_, p in enumerate(q) if n_ not in drop] or q[:1]
    sh = 0
    if len(q) >= 5 and draw(st.integers(0, 1)) == 0:
        j = draw(st.integers(2, len(q) - 2))
        sh = draw(st.one_of(st.integers(300, 4000), st.integers(1500, 40000))) * draw(st.sampled_from([1, -1]))
        q = sorted(q)
        if sh < 0:
            sh = -min(-sh, max(0, int(q[j] - q[j - 1]) - 300))
        q = q[:j] + [p + sh for p in q[j:]]
    q = sorted(int(round(p)) for p in q)
    lo = q[0]
    q = [p - lo for p in q]
    rev = draw(st.booleans())
    qlen = q[-1] + 1
    true = ref[i] + lo
    if rev:
        q = [q[-1] - p for p in q[::-1]]
    npk = draw(st.integers(min_peaks, max_peaks))
    # seed peaks of one candidate come from scipy.find_peaks on one correlation: distinct bin centres,
    # i.e. distinct multiples of the secondary resolution (>= 50 bp here) apart
    step = draw(st.sampled_from([100, 100, 50, 200]))
    spread = draw(st.sampled_from([2, 4, 8, 15, 40]))
    offs = draw(st.lists(st.one_of(st.integers(-spread, spread), st.integers(-3, 3)), min_size=npk, max_size=npk, unique=True))
    # with an indel the tail of the query lies on the diagonal (true - sh): seed both diagonals
    base = [true, (true - sh) if rev else true - sh] if sh else [true]
    if rev and sh:
        base = [true + 0, true - sh]
    peaks = []
    for n_, o in enumerate(offs):
        b = base[n_ % len(base)]
        p = (b // step + o) * step + step // 2 - 1
        if p not in peaks:
            peaks.append(p)
    if draw(st.integers(0, 7)) == 0:
        far = draw(st.integers(-200, (ref[-1] // step) + 200)) * step + step // 2 - 1
        if far not in peaks:
            peaks.append(far)
    return {"ref": ref, "query": q, "qlen": qlen, "rev": rev, "peaks": peaks,
            "params": force_params if force_params is not None else draw(params())}
