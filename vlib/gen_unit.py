"""Unit-level generators around Aligner.align: real label data + synthetic ladders of seed peaks.

case = {"ref": [ints], "query": [ints, first = 0], "qlen": int, "rev": bool, "peaks": [int,...],
        "params": {"sp","dp","su","d","ms","bs","ss","sj"}}
The aligner is wired exactly as WorkflowCoordinatorFactory.create wires it.
"""
from __future__ import annotations

from hypothesis import strategies as st

DEFAULT_PARAMS = {"sp": 1000, "dp": 1.0, "su": -250, "d": 1500, "ms": 1000, "bs": 1200, "ss": 0, "sj": 1.0}


def build_aligner(params):
    from src.alignment.aligner import Aligner, AlignerEngine
    from src.alignment.alignment_position_scorer import AlignmentPositionScorer
    from src.alignment.segment_chainer import SegmentChainer, SequentialityScorer
    from src.alignment.segment_with_resolved_conflicts import AlignmentSegmentConflictResolver
    from src.alignment.segments_factory import AlignmentSegmentsFactory
    p = dict(DEFAULT_PARAMS, **params)
    scorer = AlignmentPositionScorer(p["sp"], p["dp"], p["su"])
    factory = AlignmentSegmentsFactory(p["ms"], p["bs"])
    engine = AlignerEngine(p["d"])
    resolver = AlignmentSegmentConflictResolver(SegmentChainer(SequentialityScorer(p["sj"], p["ss"])))
    return Aligner(scorer, factory, engine, resolver)


def build_maps(case):
    from src.correlation.optical_map import OpticalMap
    ref = OpticalMap(1, int(case["ref"][-1]) + 1000, list(case["ref"]))
    qry = OpticalMap(2, case["qlen"], list(case["query"]), shift=case.get("shift", 0))
    return ref, qry


def build_peaks(case):
    from src.correlation.peak import Peak
    return [Peak(p, 30.0 + k, p - 50, p + 50, 30.0 + k) for k, p in enumerate(case["peaks"])]


@st.composite
def params(draw, weight_default=2):
    out = {}
    space = {"sp": [500, 2000], "dp": [0.5, 2.0, 0.35], "su": [0, -100, -600], "d": [200, 800, 3000, 8000],
             "ms": [1, 500, 2000], "bs": [0, 600, 2500], "ss": [1], "sj": [0.5, 2.0]}
    for k, vals in space.items():
        v = draw(st.sampled_from([None] * weight_default + vals))
        if v is not None:
            out[k] = v
    return out


@st.composite
def aligner_case(draw, min_peaks=1, max_peaks=8, force_params=None):
    n = draw(st.integers(10, 60))
    kind = draw(st.sampled_from(["dense", "real", "real", "repeat"]))
    gapst = {"dense": st.integers(300, 3000), "real": st.one_of(st.integers(1500, 9000), st.integers(2000, 30000)),
             "repeat": st.integers(2000, 9000)}[kind]
    gaps = draw(st.lists(gapst, min_size=n - 1, max_size=n - 1))
    if kind == "repeat":
        w = draw(st.integers(2, 6))
        b = draw(st.integers(0, max(0, len(gaps) - w)))
        gaps = gaps[:b + w] + gaps[b:b + w] * draw(st.integers(1, 4)) + gaps[b + w:]
    ref = [draw(st.integers(0, 20000))]
    for g in gaps:
        ref.append(ref[-1] + g)
    n = len(ref)
    k = draw(st.integers(min(5, n), min(40, n)))
    i = draw(st.integers(0, n - k))
    win = [p - ref[i] for p in ref[i:i + k]]
    stretch = draw(st.sampled_from([100, 100, 94, 97, 103, 106, 88, 112, 115, 85])) / 100
    s = draw(st.sampled_from([0, 60, 250, 600]))
    jit = draw(st.lists(st.integers(-s, s), min_size=k, max_size=k)) if s else [0] * k
    q = [p * stretch + j for p, j in zip(win, jit)]
    drop = set(draw(st.lists(st.integers(0, k - 1), max_size=max(0, k // 4))))
    q = [p for n_, p in enumerate(q) if n_ not in drop] or q[:1]
    sh = 0
    if len(q) >= 5 and draw(st.integers(0, 1)) == 0:
        j = draw(st.integers(2, len(q) - 2))
        sh = draw(st.one_of(st.integers(300, 4000), st.integers(1500, 40000))) * draw(st.sampled_from([1, -1]))
        q = sorted(q)
        if sh < 0:
            sh = -min(-sh, max(0, int(q[j] - q[j - 1]) - 300))
        q = q[:j] + [p + sh for p in q[j:]]
    q = sorted(int(round(p)) for p in q)
    lo = q[0]
    q = [p - lo for p in q]
    rev = draw(st.booleans())
    qlen = q[-1] + 1
    true = ref[i] + lo
    if rev:
        q = [q[-1] - p for p in q[::-1]]
    npk = draw(st.integers(min_peaks, max_peaks))
    # seed peaks of one candidate come from scipy.find_peaks on one correlation: distinct bin centres,
    # i.e. distinct multiples of the secondary resolution (>= 50 bp here) apart
    step = draw(st.sampled_from([100, 100, 50, 200]))
    spread = draw(st.sampled_from([2, 4, 8, 15, 40]))
    offs = draw(st.lists(st.one_of(st.integers(-spread, spread), st.integers(-3, 3)), min_size=npk, max_size=npk, unique=True))
    # with an indel the tail of the query lies on the diagonal (true - sh): seed both diagonals
    base = [true, (true - sh) if rev else true - sh] if sh else [true]
    if rev and sh:
        base = [true + 0, true - sh]
    peaks = []
    for n_, o in enumerate(offs):
        b = base[n_ % len(base)]
        p = (b // step + o) * step + step // 2 - 1
        if p not in peaks:
            peaks.append(p)
    if draw(st.integers(0, 7)) == 0:
        far = draw(st.integers(-200, (ref[-1] // step) + 200)) * step + step // 2 - 1
        if far not in peaks:
            peaks.append(far)
    return {"ref": ref, "query": q, "qlen": qlen, "rev": rev, "peaks": peaks,
            "params": force_params if force_params is not None else draw(params())}


@st.composite
def junction_case(draw, force_params=None, long_head=False):
    """Three or four parallel diagonals 1.2-2.5 kb apart, each seeded by its own peak, with a small maxDistance so that
    every peak pairs only the labels of its own diagonal: the reference is cut into consecutive blocks (outer blocks 3-6
    labels, inner blocks 1-3), block j lies on diagonal j, and labels next to a block boundary are also given a partner
    on the neighbouring diagonal.  The candidates are chains of >= 3 segments whose short inner segments share labels
    with both neighbours - the shape in which a segment is emptied from either side while its neighbours still conflict
    (added after seeded change C15-3 was missed by ladders of peaks around one diagonal)."""
    m = draw(st.integers(3, 4))
    d = draw(st.sampled_from([200, 300, 300, 500]))
    delta = draw(st.integers(d + 300, d + 1600))
    sign = draw(st.sampled_from([1, -1]))
    sizes = [draw(st.integers(4, 7))] + [draw(st.integers(2, 4)) for _ in range(m - 2)] + [draw(st.integers(4, 7))]
    if long_head:
        # the first segment runs over hundreds of labels (a contig-sized molecule): position lists longer than 255 / 256;
        # its labels are arithmetic in the label number except for the last three before the junction
        sizes[0] = draw(st.sampled_from([250, 256, 257, 280, 300, 330, 520]))
    arith = sizes[0] - 3 if long_head else 0
    n = sum(sizes)
    tight = draw(st.integers(0, 3)) > 0
    ref = [draw(st.integers(20000, 60000))]
    block_of = []
    for j, sz in enumerate(sizes):
        block_of += [j] * sz
    for i in range(1, n):
        inner = 0 < block_of[i] < m - 1 or 0 < block_of[i - 1] < m - 1
        # outer labels are further apart than the outermost diagonals (no accidental partners on a foreign diagonal)
        wide = (m - 1) * delta + 2 * d + 100
        if i < arith:
            gap = wide + (i * i * 31 + 7 * i) % 3000
        else:
            gap = draw(st.integers(500, 1500)) if (tight and inner) else draw(st.integers(wide, wide + 3000))
        ref.append(ref[-1] + gap)
    offs = [sign * j * delta for j in range(m)]          # query = ref - base - off_j on diagonal j
    q = []
    for i, r in enumerate(ref):
        j = block_of[i]
        jit = ((i * 37) % (d // 2 + 1)) - d // 4 if i < arith else draw(st.integers(-d // 4, d // 4))
        inner_block = 0 < j < m - 1
        if not inner_block or draw(st.integers(0, 3)) > 0:      # inner labels are sometimes left without a partner
            q.append(r - offs[j] + jit)
        # a partner on the neighbouring diagonal for the label right at a block boundary
        for nb in (j - 1, j + 1):
            if 0 <= nb < m and (block_of[max(0, i - 1)] == nb or block_of[min(n - 1, i + 1)] == nb):
                if draw(st.booleans()):
                    q.append(r - offs[nb] + draw(st.integers(-d // 4, d // 4)))
    # a few unrelated query labels (unpaired positions inside segments)
    for _ in range(draw(st.integers(0, 3))):
        q.append(draw(st.integers(min(q), max(q))))
    q = sorted(set(int(x) for x in q))
    lo = q[0]
    q = [x - lo for x in q]
    qlen = q[-1] + 1
    rev = draw(st.booleans())
    if rev:
        q = [q[-1] - p for p in q[::-1]]
    peaks = []
    for j in draw(st.permutations(range(m))):
        p = offs[j] + lo + draw(st.sampled_from([0, 0, 49, -50, 99]))
        if p not in peaks:
            peaks.append(p)
    if force_params is not None:
        prm = dict(force_params)
    else:
        prm = draw(params())
    prm["d"] = d
    if draw(st.integers(0, 2)) > 0:
        prm.pop("ms", None)
        prm.pop("bs", None)
    return {"ref": ref, "query": q, "qlen": qlen, "rev": rev, "peaks": peaks, "params": prm}


def mixed_case(min_peaks=1, max_peaks=8, force_params=None):
    """ladders of peaks around one diagonal (half), junction cases (a third) and centre-triple cases (a sixth)"""
    a = aligner_case(min_peaks=min_peaks, max_peaks=max_peaks, force_params=force_params)
    jc = junction_case(force_params=force_params)
    return st.one_of(a, a, a, jc, jc, triple_case(force_params=force_params))


@st.composite
def triple_case(draw, force_params=None):
    """Three diagonals +o, 0, -o seeded by three peaks; the outer segments A (+o) and C (-o) reach into a tight group of
    three reference labels r1 < rM < r2 from either side, the short middle segment B (diagonal 0) spans that group, so
    that A/B and B/C overlap by about half of B (the most the chainer lets through) and A and C may still share a label
    of the group once B has been cut away from either side."""
    d = draw(st.sampled_from([300, 300, 200, 400]))
    h1, h2 = draw(st.integers(600, 1400)), draw(st.integers(600, 1400))
    if draw(st.booleans()):
        h2 = h1
    o = draw(st.integers(max(h1, h2) + d + 100, max(h1, h2) + d + 1200))
    wide = 2 * o + 2 * d + 100
    r1 = draw(st.integers(30000, 60000))
    rM, r2 = r1 + h1, r1 + h1 + h2
    na, nc = draw(st.integers(2, 5)), draw(st.integers(2, 5))
    refA = [r1 - draw(st.integers(wide, wide + 1500)) * (na - i) for i in range(na)]
    refC = [r2 + draw(st.integers(wide, wide + 1500)) * (i + 1) for i in range(nc)]
    ref = sorted(set(refA)) + [r1, rM, r2] + sorted(set(refC))
    j = lambda: draw(st.integers(-d // 3, d // 3))      # noqa: E731
    group = [r1, rM, r2]
    a_end = draw(st.sampled_from([[rM], [rM], [r1, rM], [r1], [rM, r2]]))
    c_start = draw(st.sampled_from([[rM], [rM], [rM, r2], [r2], [r1, rM]]))
    b_lab = draw(st.sampled_from([[r1, r2], [r1, r2], [r1, rM, r2], [r1, rM], [rM, r2]]))
    q = [r - o + j() for r in refA + a_end]
    q += [r + j() + draw(st.sampled_from([0, 0, -50, 300, -d + 10, d - 10])) for r in b_lab]
    q += [r + o + j() for r in c_start + refC]
    q = sorted(set(int(x) for x in q))
    lo = q[0]
    q = [x - lo for x in q]
    qlen = q[-1] + 1
    rev = draw(st.booleans())
    if rev:
        q = [q[-1] - p for p in q[::-1]]
    # r - q' = off + lo with off = +o for A (query = r - o), 0 for B, -o for C
    peaks = [o + lo, lo, -o + lo]
    peaks = [peaks[i] for i in draw(st.permutations(range(3)))]
    prm = dict(force_params) if force_params is not None else draw(params())
    prm["d"] = d
    for k in ("ms", "bs", "sj", "ss"):
        if draw(st.integers(0, 3)) > 0:
            prm.pop(k, None)
    return {"ref": ref, "query": q, "qlen": qlen, "rev": rev, "peaks": peaks, "params": prm}


@st.composite
def swarm_case(draw):
    """a short molecule seeded by a swarm of 18-40 peaks 25-100 bp apart (a secondary correlation with a broad, flat
    top): every peak yields a segment over the same few labels, so the chain is long and all but one member must be
    emptied"""
    nr = draw(st.integers(5, 9))
    ref = [draw(st.integers(10000, 30000))]
    for _ in range(nr - 1):
        ref.append(ref[-1] + draw(st.integers(3000, 8000)))
    k = draw(st.integers(1, 3))
    i = draw(st.integers(0, nr - k))
    q = [p - ref[i] for p in ref[i:i + k]]
    rev = draw(st.booleans())
    qlen = q[-1] + 1
    if rev:
        q = [q[-1] - p for p in q[::-1]]
    true = ref[i]
    step = draw(st.sampled_from([25, 50, 100]))
    npk = draw(st.integers(18, 40))
    first = draw(st.integers(-npk // 2 - 2, 0))
    peaks = [true + (first + j) * step for j in range(npk)]
    if draw(st.booleans()):
        peaks = peaks[::-1]
    prm = {"ms": draw(st.sampled_from([1, 500])), "d": draw(st.sampled_from([1500, 3000]))}
    if draw(st.booleans()):
        prm["ss"] = 1
    return {"ref": ref, "query": q, "qlen": qlen, "rev": rev, "peaks": peaks, "params": prm}
