"""C10 - a query's record is independent of the other molecules and of file order.

Differential oracle: base run vs runs on transformed inputs (subset / added / permuted molecules,
shuffled rows, -qId/-rId vs physically restricted files).
"""
from __future__ import annotations

import collections

from hypothesis import strategies as st

from vlib import scale, cmap_text, gen_maps, pipeline
from vlib.core import Sub, req

PROPERTY = "C10"
RULE = ("generated CMAP sets (2-7 queries, 1-3 references, any mode) + all of: keep a drawn subset of queries, add unrelated queries, "
        "permute molecule blocks of both files, shuffle every data row of both files, -qId/-rId selections (including ids that do "
        "not exist) vs files physically restricted to the same molecules.  non-trivial = a transformation changes the neighbours of "
        "a query that has a record, with >=1 second-pass record present; distinct = distinct case")
ASSUMPTIONS = ["records are compared per query id as multisets of data lines without the XmapEntryID column; the -qId/-rId comparison is exact",
               "for reference-side reorderings a query is skipped when its recorded seed scores or candidate confidences are tied "
               "(the property speaks of references the query does not align to)"]


def per_query(run):
    out = collections.defaultdict(lambda: collections.Counter())
    for suf, recs in run.files.items():
        for r in recs:
            out[r["QryContigID"]][(suf, r["line"].split("\t", 1)[1])] += 1
    return out


def tied_queries(run):
    """ids of first-pass queries whose seed selection or best-candidate choice involves an exact tie"""
    from src.extensions.messages import AlignmentResultRowMessage, InitialAlignmentMessage
    scores = collections.defaultdict(list)
    confs = collections.defaultdict(list)
    for m in run.messages:
        if isinstance(m, InitialAlignmentMessage):
            for p in m.data.peaks:
                scores[(m.data.query.moleculeId, m.data.query.shift, len(m.data.query.positions))].append(float(p.score))
        elif isinstance(m, AlignmentResultRowMessage):
            confs[(m.query.moleculeId, m.query.shift, len(m.query.positions))].append(float(m.alignment.confidence))
    tied = set()
    for k, s in scores.items():
        if len(set(s)) < len(s):
            tied.add(str(k[0]))
    for k, c in confs.items():
        if len(c) >= 2 and sorted(c)[-1] == sorted(c)[-2]:
            tied.add(str(k[0]))
    return tied


def compare(base_pq, other, keep_ids, what, skip=()):
    opq = per_query(other)
    for q in keep_ids:
        if q in skip:
            continue
        req(base_pq.get(q, collections.Counter()) == opq.get(q, collections.Counter()), "record-depends-on-other-molecules",
            f"{what}: records of query {q} changed: {sorted(k[0] for k in base_pq.get(q, {}))} -> {sorted(k[0] for k in opq.get(q, {}))}")


def check(case):
    base = pipeline.run_case(case)
    if base.crashed:
        return {"nontrivial": False, "classes": ["pipeline-crash:" + base.crash_signature]}
    if base.format_error:
        return {"nontrivial": False, "classes": ["format-error(C07)"]}
    T = case["transform"]
    bpq = per_query(base)
    qids = [str(q["id"]) for q in case["queries"]]
    tied = tied_queries(base)
    cl = [f"mode={base.mode}"]
    second = any(r.get("AlignedRest") == "True" for recs in base.files.values() for r in recs)
    if second:
        cl.append("second-pass")

    def run2(c2, what):
        r = pipeline.run_case(c2, record=False)
        req(not r.crashed, "transformed-run-crashes", f"{what}: transformed input aborts: {r.crash_text}")
        return r

    # 1. subset of queries
    keep = [q for q, k in zip(case["queries"], T["keep"]) if k] or case["queries"][:1]
    r = run2(dict(case, queries=keep), "query subset")
    compare(bpq, r, [str(q["id"]) for q in keep], f"after removing queries {[q['id'] for q in case['queries'] if q not in keep]}")
    changed_neighbours = len(keep) < len(case["queries"])
    # 2. added unrelated queries
    r = run2(dict(case, queries=case["queries"] + T["extra"]), "added queries")
    compare(bpq, r, qids, f"after adding queries {[q['id'] for q in T['extra']]}")
    # 3. permuted molecule order in both files
    rp = [case["refs"][i] for i in T["ref_perm"]]
    qp = [case["queries"][i] for i in T["qry_perm"]]
    r = run2(dict(case, refs=rp, queries=qp), "permuted molecules")
    compare(bpq, r, qids, f"after permuting molecule order (refs {T['ref_perm']}, queries {T['qry_perm']})", skip=tied)
    # 4. shuffled rows of both files
    nr, nq = cmap_text.n_rows(case["refs"]), cmap_text.n_rows(case["queries"])
    rrows, qrows = _perm(nr, T["row_mul"], T["row_add"]), _perm(nq, T["row_mul"], T["row_add"])
    r = run2(dict(case, ref_rows=rrows, qry_rows=qrows), "shuffled rows")
    compare(bpq, r, qids, "after shuffling the data rows of both CMAP files", skip=tied)
    # 5. -qId / -rId vs physically restricted files
    sel_q = [q["id"] for q, k in zip(case["queries"], T["sel_q"]) if k] or [case["queries"][0]["id"]]
    sel_r = [x["id"] for x, k in zip(case["refs"], T["sel_r"]) if k] or [case["refs"][0]["id"]]
    args = dict(case.get("args") or {})
    a = run2(dict(case, args=dict(args, **{"-qId": sel_q + T["ghost_q"], "-rId": sel_r + T["ghost_r"]})), "-qId/-rId run")
    b = run2(dict(case, refs=[x for x in case["refs"] if x["id"] in sel_r], queries=[q for q in case["queries"] if q["id"] in sel_q]),
             "physically restricted run")
    req(set(a.files) == set(b.files), "id-filter-file-set", "-qId/-rId run and restricted-file run write different file sets")
    for suf in a.files:
        la, lb = [x["line"] for x in a.files[suf]], [x["line"] for x in b.files[suf]]
        req(la == lb, "id-filter-differs-from-restricted-files",
            f"-qId {sel_q + T['ghost_q']} -rId {sel_r + T['ghost_r']}: file {suf} has {len(la)} records, run on physically restricted files {len(lb)} (or different content)")
    # 6. self-alignment (one file named as reference and as query): an id filter on one side vs the other side given
    #    as a physically restricted file
    mols = [m for m in case["queries"] if m["labels"]][:4]
    if len(mols) >= 2:
        sel = [m["id"] for m, k in zip(mols, T["sel_q"]) if k] or [mols[0]["id"]]
        self_case = dict(case, refs=mols, queries=mols, same_file=True)
        a = run2(dict(self_case, args=dict(args, **{"-qId": sel})), "self-alignment with -qId")
        b = run2(dict(case, refs=mols, queries=[m for m in mols if m["id"] in sel]), "self-alignment, query file physically restricted")
        c = run2(dict(self_case, args=dict(args, **{"-rId": sel})), "self-alignment with -rId")
        e = run2(dict(case, refs=[m for m in mols if m["id"] in sel], queries=mols), "self-alignment, reference file physically restricted")
        for x, y, what in ((a, b, f"-qId {sel}"), (c, e, f"-rId {sel}")):
            req(set(x.files) == set(y.files), "id-filter-file-set", f"self-alignment {what}: different file sets")
            for suf in x.files:
                la, lb = [r["line"] for r in x.files[suf]], [r["line"] for r in y.files[suf]]
                req(la == lb, "id-filter-differs-from-restricted-files",
                    f"one file given as reference and as query, {what}: file {suf} has {len(la)} records, the run on a physically restricted file {len(lb)} (or different content)")
        cl.append("self-alignment")
    cl.append("ghost-ids" if T["ghost_q"] or T["ghost_r"] else "no-ghost-ids")
    if len(sel_r) < len(case["refs"]):
        cl.append("reference-subset")
    has_rec = any(q in bpq for q in qids)
    return {"nontrivial": bool(second and has_rec and changed_neighbours), "classes": cl}


def check_many(case):
    """hundreds of query molecules: the records of a few of them (the last ones in the file among them) must be those of a
    run restricted to them with -qId and of a run on a query file physically restricted to them"""
    full = pipeline.run_case(case, record=False)
    if full.crashed:
        return {"nontrivial": False, "classes": ["pipeline-crash:" + full.crash_signature]}
    sel = case["select"]
    a = pipeline.run_case(dict(case, args=dict(case.get("args") or {}, **{"-qId": sel})), record=False)
    b = pipeline.run_case(dict(case, queries=[q for q in case["queries"] if q["id"] in sel]), record=False)
    req(not a.crashed and not b.crashed, "transformed-run-crashes", f"restricted run aborts: {a.crash_text or b.crash_text}")
    fpq = per_query(full)
    compare(fpq, b, [str(i) for i in sel], f"{len(case['queries'])} queries in the file vs a file with queries {sel} only")
    for suf in a.files:
        la, lb = [x["line"] for x in a.files[suf]], [x["line"] for x in b.files[suf]]
        req(la == lb, "id-filter-differs-from-restricted-files", f"-qId {sel} on a file of {len(case['queries'])} queries: file {suf} differs from the run on the restricted file")
    n = sum(len(v) for v in full.files.values())
    return {"nontrivial": n >= 257, "classes": [f"mode={full.mode}", f"queries>={256 if len(case['queries']) > 256 else 0}"]}


def _perm(n, mul, add):
    from math import gcd
    if n > 1 and gcd(mul, n) == 1:
        return [(i * mul + add) % n for i in range(n)]
    return list(range(n))[::-1]


@st.composite
def strategy(draw):
    case = draw(gen_maps.pipeline_case(flank_repeat=1, max_queries=7, min_queries=2, weight_default=5,
                                       kinds=["exact", "noisy", "stretched", "indel", "chimeric", "partial", "partial", "repeat", "short", "unrelated"]))
    nq, nr = len(case["queries"]), len(case["refs"])
    used = {q["id"] for q in case["queries"]}
    extra = []
    for k in range(draw(st.integers(1, 2))):
        n = draw(st.integers(3, 25))
        gaps = draw(st.lists(st.integers(2000, 30000), min_size=n - 1, max_size=n - 1))
        lab = [0.0]
        for g in gaps:
            lab.append(lab[-1] + g)
        qid = next(i for i in range(100000 + k, 100100) if i not in used)
        used.add(qid)
        extra.append({"id": qid, "labels": lab, "length": lab[-1] + 1.0, "truth": {"kind": "added"}})
    case["transform"] = {
        "keep": draw(st.lists(st.booleans(), min_size=nq, max_size=nq)),
        "extra": extra,
        "ref_perm": draw(st.permutations(range(nr))),
        "qry_perm": draw(st.permutations(range(nq))),
        "row_mul": draw(st.sampled_from([7, 11, 13, 17, 29, 101])), "row_add": draw(st.integers(0, 50)),
        "sel_q": draw(st.lists(st.booleans(), min_size=nq, max_size=nq)),
        "sel_r": draw(st.lists(st.booleans(), min_size=nr, max_size=nr)),
        "ghost_q": draw(st.sampled_from([[], [], [424242]])), "ghost_r": draw(st.sampled_from([[], [], [1000001]])),
    }
    return case


def subchecks(tier):
    q = tier == "quick"
    return [Sub("transformations", "hyp", check, strategy=strategy, examples=260 if q else 6000, shrink_budget=40,
                sample_filter=gen_maps.short_case, required_classes=("second-pass", "ghost-ids", "reference-subset")),
            Sub("many-queries", "hyp", check_many, strategy=scale.many_queries_case, examples=2 if q else 48, shrink_budget=0, skip_first=True, shards=2 if q else 16,
                sample_filter=scale.short, describe="257-385 query molecules in one run vs runs restricted to a few of them")]
