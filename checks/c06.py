"""C06 - a noise-free copy of an interior reference region is placed exactly.

Metamorphic oracle with a known placement: planted queries must come back on the planted
reference/strand with exactly the planted pairs, HitEnum '<k>M', offsets <= 200 bp.
"""
from __future__ import annotations

import numpy as np
from hypothesis import strategies as st

from vlib import gen_maps, pipeline
from vlib.core import Sub, req
from vlib.gen_maps import r1

PROPERTY = "C06"
RULE = ("single reference of 25-120 labels, spacing >= 2 kb with realised mean >= 9 kb (optionally one-decimal coordinates); 1-4 "
        "queries that are exact copies of 15-45 consecutive labels starting >= 4 labels from either end, either strand, coordinate "
        "offset 0-30 kb, trailing length 0.1-30 kb; default parameters, all four modes.  Cases whose window is self-similar "
        "(another placement matches >= 50% of the query labels within 500 bp) are discarded.  non-trivial = every planted query; "
        "distinct = distinct case")
ASSUMPTIONS = ["'realistic label spacing' is implemented as: >= 2 kb, mean >= 9 kb, and no other placement of the window matching "
               ">= 50 % of its labels within 500 bp (periodic references make the placement genuinely ambiguous)",
               "the first-pass record is read from: main (best/separate), _1 (all), main or _1 (joined)"]


def self_similar(ref, q, rev, i):
    """another placement (other diagonal or other strand) matches >= 50 % of the query labels within 500 bp"""
    ref = np.asarray(ref, dtype=float)
    k = len(q)
    for strand in (False, True):
        qq = np.asarray(q, dtype=float)
        if strand:
            qq = (qq[-1] - qq)[::-1]
        offs = (ref[:, None] - qq[None, :]).ravel()
        if strand == rev:
            true_off = ref[i] - 0.0
            offs = offs[np.abs(offs - true_off) > 1500]
        if offs.size == 0:
            continue
        offs = np.unique(offs)   # every placement that puts some query label exactly on some reference label
        pos = offs[:, None] + qq[None, :]
        idx = np.searchsorted(ref, pos)
        lo = np.abs(pos - ref[np.clip(idx - 1, 0, len(ref) - 1)])
        hi = np.abs(pos - ref[np.clip(idx, 0, len(ref) - 1)])
        cnt = (np.minimum(lo, hi) <= 500).sum(axis=1)
        if cnt.max() * 2 >= k:
            return True
    return False


@st.composite
def planted_case(draw):
    n = draw(st.integers(25, 120))
    gaps = draw(st.lists(st.one_of(st.integers(2000, 12000), st.integers(2000, 40000)), min_size=n - 1, max_size=n - 1))
    # deterministic de-periodising term: an all-minimal draw must not give a periodic reference
    gaps = [g + ((j * 7919) % 1999) * 3 for j, g in enumerate(gaps)]
    mean = sum(gaps) / len(gaps)
    if mean < 9000:
        f = 9000 / mean
        gaps = [int(g * f) + 1 for g in gaps]
    # edge mode: windows that begin/end exactly 4 labels from a reference end, with the outer labels only 2-3 kb
    # apart, so that the secondary-correlation window around the seed reaches beyond the reference start/end
    edge = draw(st.sampled_from([None, None, "start", "end", "both"]))
    if edge:
        small = [2000 + draw(st.integers(0, 900)) + 37 * j for j in range(6)]
        g2 = list(gaps)
        if edge in ("start", "both"):
            g2[:6] = small
        if edge in ("end", "both"):
            g2[-6:] = small[::-1]
        if sum(g2) / len(g2) >= 9000:
            gaps = g2
        else:
            edge = None
    first = draw(st.one_of(st.integers(0, 3000), st.integers(0, 30000)))
    frac = draw(st.sampled_from([0, 0, 3, 7]))
    labels = [first]
    for g in gaps:
        labels.append(labels[-1] + g)
    labels = [r1(p + ((j * frac) % 10) / 10) for j, p in enumerate(labels)]
    ref = {"id": draw(st.integers(1, 999)), "labels": labels, "length": r1(labels[-1] + draw(st.integers(0, 30000)))}
    nq = draw(st.integers(1, 4))
    qids = draw(st.lists(st.integers(1, 99999), min_size=nq, max_size=nq, unique=True))
    queries = []
    for qid in qids:
        k = draw(st.integers(15, min(45, n - 8)))
        i = draw(st.integers(4, n - 4 - k))
        if edge and draw(st.booleans()):
            i = 4 if edge == "start" or (edge == "both" and draw(st.booleans())) else n - 4 - k
        rev = draw(st.booleans())
        win = labels[i:i + k]
        rel = [p - win[0] for p in win]
        q = [rel[-1] - p for p in rel[::-1]] if rev else rel
        off = draw(st.one_of(st.just(0), st.integers(0, 30000))) + draw(st.sampled_from([0, 0, 0.5, 0.9]))
        ql = [r1(p + off) for p in q]
        trailing = draw(st.one_of(st.integers(1, 300), st.integers(1, 300000))) / 10
        queries.append({"id": qid, "labels": ql, "length": r1(ql[-1] + trailing),
                        "truth": {"kind": "planted", "ref": ref["id"], "i": i, "k": k, "strand": "-" if rev else "+", "offset": off,
                                  "at_edge": bool(edge) and i in (4, n - 4 - k)}})
    return {"refs": [ref], "queries": queries, "mode": draw(st.sampled_from(["best", "separate", "joined", "all"])), "args": {}}


def check(case):
    from src.extensions.messages import AlignmentResultRowMessage
    ref = case["refs"][0]
    for q in case["queries"]:
        t = q["truth"]
        rel = [p - q["labels"][0] for p in q["labels"]]
        if self_similar(ref["labels"], rel, t["strand"] == "-", t["i"]):
            return {"nontrivial": False, "classes": ["discarded-self-similar"]}
    run = pipeline.run_case(case)
    if run.crashed:
        return {"nontrivial": False, "classes": ["pipeline-crash:" + run.crash_signature]}
    mode = run.mode
    sufs = {"best": ["main"], "separate": ["main"], "all": ["_1"], "joined": ["main", "_1"]}[mode]
    cl = [f"mode={mode}"]
    for q in case["queries"]:
        t = q["truth"]
        k, i = t["k"], t["i"]
        recs = [r for s in sufs for r in run.files.get(s, []) if r["QryContigID"] == str(q["id"]) and r.get("AlignedRest") != "True"]
        where = f"planted query {q['id']} (reference labels {i + 1}..{i + k}, strand {t['strand']}, offset {t['offset']}, mode {mode})"
        req(len(recs) >= 1, "planted-query-not-reported", f"{where}: no first-pass record")
        rec = recs[0]
        req(rec["RefContigID"] == str(ref["id"]), "planted-wrong-reference", f"{where}: reported on reference {rec['RefContigID']}")
        req(rec["Orientation"] == t["strand"], "planted-wrong-strand", f"{where}: reported with orientation {rec['Orientation']}")
        exp = [(i + 1 + j, (j + 1) if t["strand"] == "+" else (k - j)) for j in range(k)]
        req(rec["pairs"] == exp, "planted-pairs-differ",
            lambda: f"{where}: reported {len(rec['pairs'])} pairs {rec['pairs'][:4]}..{rec['pairs'][-2:]}, true pairs {exp[:4]}..{exp[-2:]}")
        req(rec["HitEnum"] == f"{k}M", "planted-hitenum-gaps", f"{where}: HitEnum {rec['HitEnum']}, expected {k}M")
        rows = [m.alignment for m in run.messages if isinstance(m, AlignmentResultRowMessage)
                and m.query.moleculeId == q["id"] and [(p.reference.siteId, p.query.siteId) for p in m.alignment.alignedPairs] == exp]
        req(rows, "planted-candidate-missing", f"{where}: no dispatched candidate carries the reported pairs")
        worst = min(max(abs(p.queryShift) for p in row.alignedPairs) for row in rows)
        req(worst <= 200, "planted-offset-above-200bp", f"{where}: a pair lies {worst:.0f} bp from its seed diagonal")
        cl.append("rev" if t["strand"] == "-" else "fwd")
        if t["offset"]:
            cl.append("offset")
        if t.get("at_edge"):
            cl.append("window-4-labels-from-reference-end")
    return {"nontrivial": True, "classes": sorted(set(cl))}


def subchecks(tier):
    q = tier == "quick"
    return [Sub("planted", "hyp", check, strategy=planted_case, examples=700 if q else 16000, shrink_budget=40,
                sample_filter=gen_maps.short_case, required_classes=("rev", "fwd", "offset", "mode=joined", "mode=all", "window-4-labels-from-reference-end"))]
