"""C13 - segments are maximal positive-scoring runs that respect both thresholds.

Target: AlignmentSegmentsFactory.getSegments (real ScoredAlignedPair / ScoredNotAlignedPosition
objects).  Oracle: (i) validity clauses straight from the statement, (ii) differential against a
reference left-to-right scan written from the statement.
"""
from __future__ import annotations

import itertools

from hypothesis import strategies as st

from vlib.core import Sub, Violation, req, sut

PROPERTY = "C13"
RULE = ("exhaustive: every score sequence of length<=L over {-3..3} x (minScore, breakSegmentThreshold) in "
        "{1,2,3,4}x{0,1,2,3,5}; random: sequences up to 200 positions with pair scores sp-dp*d and penalties su, "
        "thresholds over the CLI ranges.  non-trivial = the reference scan performs >=1 break AND some prefix "
        "hits a threshold equality (ext==0, ext==max-b or runmax==minScore); distinct = distinct (scores,m,b)")
ASSUMPTIONS = ["exhaustive / small-random / realistic-random: scores are integers or multiples of 0.5 so that float sums are exact and the "
               "reference scan is authoritative; float-scores: inexact scores, only rounding-independent clauses (contiguity, separation, "
               "first/last member a positively scored pair, score = sum, score >= minScore)",
               "positive scores belong to pairs (unpaired positions score unmatchedPenalty<=0)",
               "minScore>0 (factory rejects others), breakSegmentThreshold>=0"]


def _objects(scores, kinds):
    from src.alignment.alignment_position import (AlignedPair, NotAlignedQueryPosition,
                                                  NotAlignedReferencePosition, ScoredAlignedPair,
                                                  ScoredNotAlignedPosition)
    from src.correlation.optical_map import PositionWithSiteId
    out = []
    for i, (s, k) in enumerate(zip(scores, kinds)):
        p = PositionWithSiteId(i + 1, 1000 * (i + 1))
        if k == 0 or s > 0:
            out.append(ScoredAlignedPair(AlignedPair(p, p, 0), s))
        elif k == 1:
            out.append(ScoredNotAlignedPosition(NotAlignedReferencePosition(p), s))
        else:
            out.append(ScoredNotAlignedPosition(NotAlignedQueryPosition(p, 0), s))
    return out


def reference_scan(scores, m, b):
    """Segments as (start, end_exclusive) written from the statement; also returns
    (breaks, equalities) for the non-trivial rule."""
    segs = []
    n = len(scores)
    i = 0
    breaks = eq = 0
    while i < n:
        S = 0
        M = 0
        e = None
        j = i
        broke = False
        while j < n:
            S += scores[j]
            if S == 0 or (e is not None and S == M - b):
                eq += 1
            if S <= 0 or S <= M - b:
                broke = True
                break
            if S > M:
                M = S
                e = j
            j += 1
        if e is not None:
            if M == m:
                eq += 1
            if M >= m:
                segs.append((i, e + 1))
        if broke:
            breaks += 1
            i = j + 1
        else:
            break
    return segs, breaks, eq


def check(case, factory=None):
    from src.alignment.alignment_position import AlignedPair
    from src.alignment.segments import EmptyAlignmentSegment
    from src.alignment.segments_factory import AlignmentSegmentsFactory
    from src.correlation.peak import Peak
    scores, m, b = case["scores"], case["m"], case["b"]
    kinds = case.get("kinds") or [0] * len(scores)
    positions = _objects(scores, kinds)
    peak = Peak(1234, 50.0)
    if factory is None:
        factory = AlignmentSegmentsFactory(m, b)
    segs = sut(factory.getSegments, positions, peak)
    exp, breaks, eq = reference_scan(scores, m, b)
    ident = {id(p): i for i, p in enumerate(positions)}
    req(isinstance(segs, list) and len(segs) >= 1, "no-segment-list", "getSegments returned no list / empty list")
    nonempty = [s for s in segs if s.positions]
    if not nonempty:
        req(len(segs) == 1 and isinstance(segs[0], EmptyAlignmentSegment), "empty-result-shape",
            f"no run qualifies but result is not one empty segment: {len(segs)} segments")
        got = []
    else:
        req(len(nonempty) == len(segs), "empty-mixed-with-segments", "empty segment returned next to real ones")
        got = []
        prev_end = None
        for s in segs:
            idx = []
            for p in s.positions:
                req(id(p) in ident, "position-not-from-input", "segment contains an object that is not an input position")
                idx.append(ident[id(p)])
            a, z = idx[0], idx[-1] + 1
            req(idx == list(range(a, z)), "not-contiguous", f"segment is not a contiguous run of the input: {idx}")
            if prev_end is not None:
                req(a >= prev_end + 1, "not-separated", f"segments not separated by a skipped position: prev end {prev_end}, start {a}")
            prev_end = z
            ss = scores[a:z]
            req(isinstance(s.positions[0], AlignedPair) and ss[0] > 0, "start-not-positive-pair", f"segment starts on score {ss[0]}")
            req(isinstance(s.positions[-1], AlignedPair) and ss[-1] > 0, "end-not-positive-pair", f"segment ends on score {ss[-1]}")
            total = sum(ss)
            req(s.segmentScore == total, "score-not-sum", f"segmentScore {s.segmentScore} != sum of members {total}")
            req(total >= m, "below-minscore", f"segment score {total} < minScore {m}")
            S = M = 0
            first_max_at = None
            for k, v in enumerate(ss):
                S += v
                req(S > 0, "prefix-nonpositive", f"prefix sum {S} at offset {k} of segment {a}:{z}")
                req(S > M - b, "prefix-below-break", f"prefix sum {S} is >= b={b} below running max {M}")
                if S > M:
                    M = S
                    first_max_at = k
            req(first_max_at == len(ss) - 1, "end-not-first-max", f"segment {a}:{z} does not end at the first position of its maximum")
            # right-extension: no higher total is reachable before a condition is violated
            S2, j = total, z
            while j < len(scores):
                S2 += scores[j]
                if S2 <= 0 or S2 <= M - b:
                    break
                req(S2 <= M, "extendable", f"segment {a}:{z} can be extended to index {j} with score {S2} > {M}")
                j += 1
            req(s.peak is peak, "peak-lost", "segment does not carry the seed peak")
            got.append((a, z))
    req(got == exp, "segments-differ-from-reference-scan",
        lambda: f"got {got}, reference scan gives {exp} for scores={scores} m={m} b={b}")
    return {"nontrivial": breaks >= 1 and eq >= 1,
            "classes": [f"segments={min(len(exp), 3)}", "m>b" if m > b else "m<=b",
                        "break" if breaks else "nobreak", "eq" if eq else "noeq"]}


def check_history(case):
    """one factory instance cuts several position lists in a row (one per seed peak, as Aligner uses it): every call
    must satisfy the oracle on its own list"""
    from src.alignment.segments_factory import AlignmentSegmentsFactory
    factory = AlignmentSegmentsFactory(case["m"], case["b"])
    nt = False
    cl = set()
    for scores, kinds in zip(case["lists"], case["kinds"]):
        info = check({"scores": scores, "kinds": kinds, "m": case["m"], "b": case["b"]}, factory)
        nt = nt or info["nontrivial"]
        cl.update(info["classes"])
    return {"nontrivial": nt and len(case["lists"]) >= 2, "classes": sorted(cl) + [f"lists={len(case['lists'])}"]}


@st.composite
def history_case(draw):
    k = draw(st.integers(2, 4))
    lists, kinds = [], []
    for _ in range(k):
        n = draw(st.integers(0, 10))
        lists.append(draw(st.lists(st.integers(-4, 4), min_size=n, max_size=n)))
        kinds.append(draw(st.lists(st.integers(0, 2), min_size=n, max_size=n)))
    return {"lists": lists, "kinds": kinds, "m": draw(st.integers(1, 6)), "b": draw(st.integers(0, 7))}


def check_float(case):
    """inexact float scores (-dp 0.35, one-decimal coordinates, -su 0): only the clauses that do not depend on how a
    threshold equality is rounded are asserted"""
    from src.alignment.alignment_position import AlignedPair
    from src.alignment.segments_factory import AlignmentSegmentsFactory
    from src.correlation.peak import Peak
    scores, m, b = case["scores"], case["m"], case["b"]
    positions = _objects(scores, case["kinds"])
    segs = sut(AlignmentSegmentsFactory(m, b).getSegments, positions, Peak(1234, 50.0))
    ident = {id(p): i for i, p in enumerate(positions)}
    prev_end = None
    n = 0
    for s in segs:
        if not s.positions:
            continue
        n += 1
        idx = [ident.get(id(p)) for p in s.positions]
        req(None not in idx and idx == list(range(idx[0], idx[0] + len(idx))), "not-contiguous", f"segment is not a contiguous run of the input: {idx}")
        a, z = idx[0], idx[-1] + 1
        if prev_end is not None:
            req(a >= prev_end + 1, "not-separated", f"segments not separated: prev end {prev_end}, start {a}")
        prev_end = z
        req(isinstance(s.positions[0], AlignedPair) and scores[a] > 0, "start-not-positive-pair", f"segment {a}:{z} starts on score {scores[a]}")
        req(isinstance(s.positions[-1], AlignedPair) and scores[z - 1] > 0, "end-not-positive-pair",
            f"segment {a}:{z} ends on score {scores[z - 1]} ({type(s.positions[-1]).__name__}); scores {scores[max(a, z - 4):z]}")
        tot = sum(scores[a:z])
        req(abs(s.segmentScore - tot) <= 1e-6 * max(1.0, abs(tot)), "score-not-sum", f"segmentScore {s.segmentScore} vs sum {tot}")
        req(tot >= m - 1e-6 * max(1.0, abs(m)), "below-minscore", f"segment score {tot} < minScore {m}")
    zero_tail = any(scores[i] == 0 for i in range(len(scores)))
    return {"nontrivial": n >= 1 and zero_tail, "classes": [f"segments={min(n, 3)}", "has-zero-score" if zero_tail else "no-zero-score"]}


@st.composite
def float_case(draw):
    sp = draw(st.sampled_from([1000, 2000, 500]))
    dp = draw(st.sampled_from([0.35, 0.35, 0.7, 1.0, 0.1]))
    su = draw(st.sampled_from([0, 0, 0, -250, -100]))
    n = draw(st.integers(1, 60))
    scores, kinds = [], []
    for _ in range(n):
        if draw(st.integers(0, 9)) < 3:
            scores.append(su)
            kinds.append(draw(st.integers(1, 2)))
        else:
            d = draw(st.integers(0, 15000)) / 10      # one-decimal offsets, as CMAP coordinates give
            scores.append(sp - dp * d)
            kinds.append(0)
    return {"scores": scores, "kinds": kinds, "m": draw(st.sampled_from([1000, 1, 500, 3000])), "b": draw(st.sampled_from([1200, 0, 600, 2500]))}


ALPHA = (-3, -2, -1, 0, 1, 2, 3)
GRID = [(m, b) for m in (1, 2, 3, 4) for b in (0, 1, 2, 3, 5)]


def enum_small(maxlen):
    def gen(shard, nshards):
        k = 0
        for n in range(0, maxlen + 1):
            for seq in itertools.product(ALPHA, repeat=n):
                k += 1
                if k % nshards != shard:
                    continue
                seq = list(seq)
                for m, b in GRID:
                    yield {"scores": seq, "m": m, "b": b}
    return gen


@st.composite
def random_case(draw):
    sp = draw(st.sampled_from([1000, 1000, 500, 2000]))
    dp = draw(st.sampled_from([1, 1, 0.5, 2]))
    su = draw(st.sampled_from([-250, -250, 0, -100, -600, -1000]))
    maxd = draw(st.sampled_from([1500, 300, 800, 3000, 6000]))
    n = draw(st.integers(0, 200))
    scores, kinds = [], []
    p_un = draw(st.sampled_from([0.1, 0.3, 0.5, 0.7]))
    for _ in range(n):
        if draw(st.floats(0, 1)) < p_un:
            scores.append(su)
            kinds.append(draw(st.integers(1, 2)))
        else:
            d = draw(st.one_of(st.integers(0, min(maxd, 400)), st.integers(0, maxd)))
            s = sp - dp * d
            scores.append(int(s) if float(s).is_integer() else s)
            kinds.append(0)
    m = draw(st.one_of(st.sampled_from([1000, 1, 500, 2000, 3000]), st.integers(1, 6000)))
    b = draw(st.one_of(st.sampled_from([1200, 0, 250, 600, 1000, 2500]), st.integers(0, 6000)))
    # sometimes plant an exact equality with a prefix
    return {"scores": scores, "kinds": kinds, "m": m, "b": b}


@st.composite
def small_random_case(draw):
    n = draw(st.integers(0, 14))
    scores = draw(st.lists(st.integers(-4, 4), min_size=n, max_size=n))
    kinds = draw(st.lists(st.integers(0, 2), min_size=n, max_size=n))
    return {"scores": scores, "kinds": kinds, "m": draw(st.integers(1, 6)), "b": draw(st.integers(0, 7))}


@st.composite
def long_case(draw):
    """thousands of positions with hundreds to thousands of breaks (a contig with many labels off the diagonal), from
    few draws"""
    base = draw(st.lists(st.integers(-4, 4), min_size=20, max_size=50))
    n = draw(st.sampled_from([1000, 2000, 2600, 4000, 6000]))
    mul, add = draw(st.sampled_from([1, 3, 7, 11, 13])), draw(st.integers(0, 40))
    mode = draw(st.sampled_from(["mixed", "mixed", "all-negative-then-match", "alternating"]))
    if mode == "mixed":
        scores = [base[(i * mul + add + (i * i) % 5) % len(base)] for i in range(n)]
    elif mode == "alternating":
        scores = [3 if i % 2 else -3 for i in range(n)]
    else:
        scores = [-1] * (n - 30) + [2] * 30
    kinds = [0 if v > 0 else 1 + (i % 2) for i, v in enumerate(scores)]
    return {"scores": scores, "kinds": kinds, "m": draw(st.integers(1, 6)), "b": draw(st.integers(0, 7))}


@st.composite
def tiny_case(draw):
    """improvements and drops of 2^-40 next to scores of ordinary size: every value is a multiple of 2^-40 below 2^12, so
    all sums are exact and the reference scan is authoritative"""
    t = 2.0 ** -40
    n = draw(st.integers(1, 12))
    scores, kinds = [], []
    for _ in range(n):
        v = draw(st.sampled_from([1, 1, -0.5, 0.5, 2, -1, -2, 0, 1000, -250, 1024])) + draw(st.sampled_from([0, 0, t, -t, 2 * t]))
        scores.append(v)
        kinds.append(0 if v > 0 else draw(st.integers(0, 2)))
    m = draw(st.sampled_from([1, 2, 0.5, 1 + t, 1000, 1 - t]))
    b = draw(st.sampled_from([0, 1, 0.5, t, 2, 1200, 1 + t]))
    return {"scores": scores, "kinds": kinds, "m": m, "b": b}


def subchecks(tier):
    q = tier == "quick"
    return [
        Sub("exhaustive", "enum", check, enumerate=enum_small(6 if q else 8), exhaustive=True,
            describe=f"all sequences of length<={6 if q else 8} over {{-3..3}} x 20 (m,b) pairs", time_budget_s=3000),
        Sub("small-random", "hyp", check, strategy=small_random_case, examples=40000 if q else 600000,
            describe="length<=14 over {-4..4}, all kinds of positions", shrink_budget=2000),
        Sub("realistic-random", "hyp", check, strategy=random_case, examples=8000 if q else 200000,
            describe="length<=200, scores sp-dp*d / su, CLI-range thresholds", shrink_budget=2000),
        Sub("float-scores", "hyp", check_float, strategy=float_case, examples=20000 if q else 400000, shrink_budget=1500,
            describe="inexact float scores with zero penalties: rounding-independent clauses only", required_classes=("has-zero-score",)),
        Sub("long-lists", "hyp", check, strategy=long_case, examples=160 if q else 4000, shrink_budget=40,
            describe="1000-6000 positions with hundreds to thousands of breaks"),
        Sub("tiny-increments", "hyp", check, strategy=tiny_case, examples=16000 if q else 400000, shrink_budget=1500,
            describe="scores differing by 2^-40 (exact sums): improvements far below any relative tolerance"),
        Sub("factory-history", "hyp", check_history, strategy=history_case, examples=16000 if q else 300000, shrink_budget=1500,
            describe="one factory instance reused for 2-4 position lists"),
        Sub("small-atheris", "fuzz", check, strategy=small_random_case, fuzz_runs=2000 if q else 150000, time_budget_s=300.0,
            describe="coverage-guided (atheris/libFuzzer) search over the bytes behind the small-random generator, same oracle"),
    ]
