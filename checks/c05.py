"""C05 - at most one record per query: the best-scoring candidate, in query-id order.

Each generated input is run in 'separate' mode with the Recorder (seed peaks, candidates), in 'best'
mode and in one more drawn mode.  Oracle: invariant over files + reference selection over recorded
candidates (tie-tolerant).
"""
from __future__ import annotations

import collections

from hypothesis import strategies as st

from vlib import scale, gen_maps, pipeline
from vlib.core import Sub, req, sut

PROPERTY = "C05"
RULE = ("generated CMAP sets with 2-8 queries, 1-3 references, -p in {1,2,3,5,8}; each input run in separate + best + one drawn "
        "mode; every query molecule.  non-trivial = query with >=2 first-pass candidates of different confidence; distinct = "
        "distinct case")
ASSUMPTIONS = ["seed peaks are identified from the dispatched messages: CorrelationResultMessage.refinedAlignment.correlationStart + "
               "secondaryMargin is the selected peak position",
               "ties (equal peak scores at the cut, equal candidate confidences) accept any choice",
               "the 'best'-mode record may be the first-pass, the second-pass or a joined record (only one-per-query and order asserted)"]


def check(case):
    from src.extensions.messages import (AlignmentResultRowMessage, CorrelationResultMessage,
                                         InitialAlignmentMessage)
    args = case.get("args") or {}
    N = int(args.get("-p", 3))
    margin = int(args.get("-ma", 16000))
    sep = pipeline.run_case(case, mode="separate")
    if sep.crashed:
        return {"nontrivial": False, "classes": ["pipeline-crash:" + sep.crash_signature]}
    if sep.format_error:
        return {"nontrivial": False, "classes": ["format-error(C07)"]}
    cl = []
    nt = False
    # (i) one record per query in each file
    def distinct(run, sufs):
        for suf in sufs:
            ids = [r["QryContigID"] for r in run.files.get(suf, [])]
            dup = [q for q, c in collections.Counter(ids).items() if c > 1]
            req(not dup, "two-records-for-one-query", f"mode {run.mode} file {suf}: queries {dup[:5]} have more than one record")
    distinct(sep, ["main", "_1"])
    # (ii) selection of seeds and of the best candidate
    firstpass = {id(q): q for q in sep.program.queryMaps}
    peaks_of = collections.defaultdict(list)      # id(query) -> [(ic, peak)]
    selected = collections.defaultdict(dict)      # id(query) -> index -> (ic, position)
    cands = collections.defaultdict(list)         # id(query) -> [(index, row, ic)]
    for m in sep.messages:
        if isinstance(m, InitialAlignmentMessage) and id(m.data.query) in firstpass:
            for p in m.data.peaks:
                peaks_of[id(m.data.query)].append((m.data, p))
        elif isinstance(m, CorrelationResultMessage) and id(m.initialAlignment.query) in firstpass:
            selected[id(m.initialAlignment.query)][m.index] = (m.initialAlignment, m.refinedAlignment.correlationStart + margin)
        elif isinstance(m, AlignmentResultRowMessage) and id(m.query) in firstpass:
            cands[id(m.query)].append((m.index, m.alignment, m.correlation))
    first_records = {int(r["QryContigID"]): r for r in sep.files["main"]}
    for qk, q in firstpass.items():
        qid = q.moleculeId
        allp = peaks_of.get(qk, [])
        sel = selected.get(qk, {})
        cs = cands.get(qk, [])
        req(len(cs) <= N, "more-candidates-than-peakscount", f"query {qid}: {len(cs)} candidates built, peaksCount {N}")
        req(len(cs) == min(N, len(allp)), "candidate-count", f"query {qid}: {len(cs)} candidates for {len(allp)} seed peaks, peaksCount {N}")
        req(sorted(sel) == list(range(len(cs))), "candidate-indexes", f"query {qid}: refined seeds {sorted(sel)} vs {len(cs)} candidates")
        sel_scores = []
        used = set()
        for i in range(len(cs)):
            ic, pos = sel[i]
            match = [p for (c, p) in allp if c is ic and p.position == pos]
            req(len(match) >= 1, "seed-not-a-real-peak", f"query {qid}: seed {i} at {pos} is not a peak of its correlation")
            req((id(ic), pos) not in used, "seed-used-twice", f"query {qid}: seed at {pos} used for two candidates")
            used.add((id(ic), pos))
            sel_scores.append(float(match[0].score))
        req(all(a >= b for a, b in zip(sel_scores, sel_scores[1:])), "seeds-not-descending", f"query {qid}: seed scores by index {sel_scores}")
        top = sorted((float(p.score) for _, p in allp), reverse=True)[:N]
        req(sorted(sel_scores, reverse=True) == top, "seeds-not-top-n",
            f"query {qid}: seeds have scores {sel_scores}; the {N} best of {len(allp)} peaks are {top}")
        if len(allp) > N:
            cl.append("more-peaks-than-count")
        # "over all references and both strands": the seeding correlation recomputed here for every reference and strand
        # (the project's own OpticalMap.getInitialAlignment with the program's generator and options) must not offer a
        # better seed than the ones that were used
        wc = sep.program.workflowCoordinator
        gen, pargs = getattr(wc, "primaryGenerator", None), getattr(wc, "args", None)
        if gen is not None and pargs is not None:
            every = []
            for ref in sep.program.referenceMaps:
                for rev in (False, True):
                    ia = sut(q.getInitialAlignment, ref, gen, pargs.minPeakDistance, pargs.peaksCount, rev)
                    every += [float(p.score) for p in ia.peaks]
            top_all = sorted(every, reverse=True)[:N]
            got = sorted(sel_scores, reverse=True)
            req(len(got) == len(top_all) and all(abs(a - b) <= 1e-9 * max(1.0, abs(b)) for a, b in zip(got, top_all)), "seeds-not-over-all-references-and-strands",
                f"query {qid}: seeds have scores {got}; searching every reference on both strands offers {top_all} ({len(every)} peaks, {len(allp)} were dispatched)")
            cl.append("seeds-recomputed")
        # best candidate
        rec = first_records.get(qid)
        if not cs:
            req(rec is None, "record-without-candidate", f"query {qid} has a first-pass record but no candidate")
            continue
        confs = [row.confidence for _, row, _ in cs]
        mx = max(confs)
        maximal = [row for _, row, _ in cs if row.confidence >= mx - 1e-9]
        if len(set(round(c, 6) for c in confs)) >= 2:
            nt = True
            cl.append("candidates-differ")
        if len(maximal) > 1:
            cl.append("tie-at-max")
        if rec is None:
            req(any(not r.alignedPairs for r in maximal), "best-candidate-not-reported",
                f"query {qid}: no first-pass record although the best candidate (confidence {mx}) has pairs")
        else:
            c = float(rec["Confidence"])
            req(abs(c - mx) <= 0.0051 + 1e-9 * abs(mx), "record-not-the-best-candidate",
                f"query {qid}: first-pass record has Confidence {rec['Confidence']}, best of {len(cs)} candidates has {mx:.2f} (all: {[round(x, 2) for x in confs]})")
            req(any([(p.reference.siteId, p.query.siteId) for p in r.alignedPairs] == rec["pairs"] for r in maximal),
                "record-pairs-not-of-best-candidate", f"query {qid}: first-pass record lists pairs of no maximal candidate")
    # (iii) best mode
    best = pipeline.run_case(case, mode="best", record=False)
    if not best.crashed and not best.format_error:
        distinct(best, ["main"])
        ids = [int(r["QryContigID"]) for r in best.files["main"]]
        req(all(a < b for a, b in zip(ids, ids[1:])), "best-mode-not-ascending", f"'best' mode records not in ascending query id: {ids}")
        have = {int(r["QryContigID"]) for suf in ("main", "_1") for r in sep.files[suf]}
        req(set(ids) == have, "best-mode-query-set",
            f"'best' mode reports queries {sorted(ids)}; queries with a first- or second-pass record: {sorted(have)}")
        if len(ids) >= 2:
            cl.append("best-multi")
    other = case.get("mode")
    if other in ("joined", "all"):
        o = pipeline.run_case(case, mode=other, record=False)
        if not o.crashed and not o.format_error:
            distinct(o, ["main"] + (["_1", "_2"] if other == "all" else []))
            cl.append("mode=" + other)
    if sep.files["_1"]:
        cl.append("second-pass")
    return {"nontrivial": nt, "classes": sorted(set(cl))}


def check_many(case):
    """hundreds of queries in one 'best'-mode run: exactly one record per query that has any alignment, ascending ids; a
    query that gets a record when it is run alone gets one in the full run"""
    full = pipeline.run_case(case, mode="best", record=False)
    if full.crashed:
        return {"nontrivial": False, "classes": ["pipeline-crash:" + full.crash_signature]}
    ids = [int(r["QryContigID"]) for r in full.files["main"]]
    dup = [q for q, c in collections.Counter(ids).items() if c > 1]
    req(not dup, "two-records-for-one-query", f"'best' mode, {len(case['queries'])} queries: queries {dup[:5]} have more than one record")
    req(all(a < b for a, b in zip(ids, ids[1:])), "best-mode-not-ascending", f"'best' mode records not in ascending query id around {[(a, b) for a, b in zip(ids, ids[1:]) if a >= b][:3]}")
    alone = pipeline.run_case(dict(case, queries=[q for q in case["queries"] if q["id"] in case["select"]]), mode="best", record=False)
    if not alone.crashed:
        have = {int(r["QryContigID"]) for r in alone.files["main"]}
        req(have <= set(ids), "best-mode-query-set", f"queries {sorted(have - set(ids))} have an alignment (reported when run without the other {len(case['queries']) - len(case['select'])} queries) but no record in the full run")
    return {"nontrivial": len(ids) >= 257, "classes": [f"records>={256 if len(ids) > 256 else 0}"]}


@st.composite
def strategy(draw):
    case = draw(gen_maps.pipeline_case(flank_repeat=2, modes=["joined", "all", "best"], max_queries=8, min_queries=2,
                                       options=["-p", "-sp", "-d", "-ms", "-pt", "-md", "-ma", "-diff"], weight_default=3,
                                       kinds=["exact", "noisy", "noisy", "stretched", "indel", "chimeric", "partial", "repeat", "repeat", "short", "unrelated"]))
    if "-p" not in case["args"] and draw(st.booleans()):
        case["args"]["-p"] = draw(st.sampled_from([1, 2, 5, 8]))
    return case


def subchecks(tier):
    q = tier == "quick"
    return [Sub("selection", "hyp", check, strategy=strategy, examples=384 if q else 12000, shrink_budget=60,
                sample_filter=gen_maps.short_case, required_classes=("candidates-differ", "more-peaks-than-count", "best-multi")),
            Sub("many-queries", "hyp", check_many, strategy=scale.many_queries_case, examples=2 if q else 48, shrink_budget=0, skip_first=True, shards=2 if q else 16,
                sample_filter=scale.short, describe="257-385 query molecules in one 'best'-mode run"),
            Sub("many-references", "hyp", check, strategy=scale.many_references_case, examples=96 if q else 3000, shrink_budget=4,
                sample_filter=scale.short, describe="65-140 reference maps, the query's pattern carried by 2-5 of them anywhere in the list")]
