"""C03 - HitEnum is a faithful run-length encoding of the aligned pairs.

Targets: AlignmentResultRow.cigarString (rows built from real segments/pairs) and the HitEnum column
of files produced end to end.  Oracle: replay of the string from the first pair (round-trip).
"""
from __future__ import annotations

import itertools
import re

from hypothesis import strategies as st

from vlib import join_unit
from vlib.core import fuzz_variant, Sub, req, sut

PROPERTY = "C03"
RULE = ("exhaustive: every valid matching on an NxN label grid (N=8 quick / 10 thorough), both orientations, split into 1-3 "
        "segments; Hypothesis: matchings with 1-300 pairs and gaps 0-40 on either map; pipeline: every record of generated "
        "end-to-end runs (all modes).  non-trivial = matching with a gap on each map, or exactly one pair, or '-' orientation; "
        "distinct = distinct (pairs, orientation)")
ASSUMPTIONS = ["the relative order of I and D inside one gap is not constrained (replay is insensitive to it)",
               "matchings are valid in the sense of C01 (strictly ascending reference labels, strictly monotone query labels)"]

TOKEN = re.compile(r"(\d+)([MDI])")


def replay_hitenum(s, first, reverse):
    """-> list of pairs reproduced by replaying s from the pair `first`; raises ValueError on bad syntax"""
    if not re.fullmatch(r"(\d+[MDI])+", s):
        raise ValueError("syntax")
    r, q = first
    d = -1 if reverse else 1
    out = []
    for cnt, op in TOKEN.findall(s):
        n = int(cnt)
        if n < 1:
            raise ValueError("zero count")
        for _ in range(n):
            if op == "M":
                out.append((r, q))
                r += 1
                q += d
            elif op == "D":
                r += 1
            else:
                q += d
    return out


def check_hitenum(s, pairs, reverse, where=""):
    """the oracle proper; pairs = listed (ref, qry) label numbers in listed order"""
    if not pairs:
        req(s == "", "hitenum-for-no-pairs", f"{where}HitEnum {s!r} for a record without pairs")
        return
    req(s != "", "hitenum-empty", f"{where}HitEnum is empty for {len(pairs)} pair(s): {pairs[:4]}")
    req(re.fullmatch(r"(\d+[MDI])+", s) is not None, "hitenum-syntax", f"{where}HitEnum {s!r} is not (count op)+")
    toks = TOKEN.findall(s)
    req(all(int(c) >= 1 for c, _ in toks), "hitenum-zero-count", f"{where}HitEnum {s!r} has a zero count")
    req(toks[0][1] == "M" and toks[-1][1] == "M", "hitenum-not-M-bounded", f"{where}HitEnum {s!r} does not start and end with M")
    req(all(a[1] != b[1] for a, b in zip(toks, toks[1:])), "hitenum-adjacent-runs-equal", f"{where}HitEnum {s!r} repeats an operation in adjacent runs")
    got = replay_hitenum(s, pairs[0], reverse)
    req(got == list(pairs), "hitenum-replay-differs",
        lambda: f"{where}replaying {s!r} from {pairs[0]} ({'-' if reverse else '+'}) gives {got[:12]}..., listed pairs {list(pairs)[:12]}...")


def build_row(pairs, reverse, cuts, unpaired_every=0):
    from src.alignment.alignment_position import (AlignedPair, NotAlignedReferencePosition, ScoredAlignedPair,
                                                  ScoredNotAlignedPosition)
    from src.alignment.alignment_results import AlignmentResultRow
    from src.alignment.segments import AlignmentSegment
    from src.correlation.optical_map import PositionWithSiteId
    from src.correlation.peak import Peak
    peak = Peak(0, 30.0)
    segs, cur = [], []
    cuts = set(cuts)
    for k, (r, q) in enumerate(pairs):
        if k in cuts and cur:
            segs.append(AlignmentSegment(cur, 1000.0 * len(cur), peak, cur))
            cur = []
        if unpaired_every and k and k % unpaired_every == 0:
            cur.append(ScoredNotAlignedPosition(NotAlignedReferencePosition(PositionWithSiteId(r, 1000 * r - 500)), -250.0))
        qpos = 1000 * ((10 ** 6 - q) if reverse else q)
        cur.append(ScoredAlignedPair(AlignedPair(PositionWithSiteId(r, 1000 * r), PositionWithSiteId(q, qpos), 0), 1000.0))
    if cur:
        segs.append(AlignmentSegment(cur, 1000.0 * len(cur), peak, cur))
    return AlignmentResultRow(segs, 1, 1, 10 ** 6, 10 ** 6, 0, 0, 0, 0, reverse, 0.0)


def check_unit(case):
    pairs = [tuple(p) for p in case["pairs"]]
    rev = case["reverse"]
    row = build_row(pairs, rev, case.get("cuts", ()), case.get("unpaired_every", 0))
    listed = [(p.reference.siteId, p.query.siteId) for p in row.alignedPairs]
    req(listed == pairs, "harness", "row does not list the pairs it was built from")
    s = sut(lambda: row.cigarString)
    check_hitenum(s, pairs, rev)
    rg = any(b[0] - a[0] > 1 for a, b in zip(pairs, pairs[1:]))
    qg = any(abs(b[1] - a[1]) > 1 for a, b in zip(pairs, pairs[1:]))
    both_in_one = any(b[0] - a[0] > 1 and abs(b[1] - a[1]) > 1 for a, b in zip(pairs, pairs[1:]))
    cl = ["rev" if rev else "fwd", f"pairs={'1' if len(pairs) == 1 else '2+'}"]
    if both_in_one:
        cl.append("I-and-D-in-one-gap")
    return {"nontrivial": (rg and qg) or len(pairs) == 1 or rev, "classes": cl}


def check_join_unit(case):
    """HitEnum of every row that comes out of the first/second-pass join"""
    from vlib.oracles import valid_matching
    jr = join_unit.run(case)
    nt = False
    cl = {f"mode={case['mode']}"}
    for st_ in jr.steps:
        for kind, rows in (("joined", st_["joined"]), ("un-joined", st_["separate"])):
            for row in rows:
                pairs = join_unit.pairs_of(row)
                if not valid_matching(pairs, row.orientation, bounds=False):
                    cl.add("not-a-valid-matching(C01)")
                    continue
                check_hitenum(sut(lambda: row.cigarString), pairs, row.orientation == "-", f"{kind} row out of resolve({st_['kind']}): ")
                if kind == "joined":
                    nt = True
                    cl.add("joined")
    return {"nontrivial": nt, "classes": sorted(cl)}


def enum_grid(N):
    def gen(shard, nshards):
        k = 0
        for n in range(1, N + 1):
            for rs in itertools.combinations(range(1, N + 1), n):
                for qs in itertools.combinations(range(1, N + 1), n):
                    k += 1
                    if k % nshards != shard:
                        continue
                    for rev in (False, True):
                        q = qs[::-1] if rev else qs
                        cuts = [c for c in ((k % n), (k * 7 % (n + 1))) if 0 < c < n][: k % 3]
                        yield {"pairs": [list(p) for p in zip(rs, q)], "reverse": rev, "cuts": cuts,
                               "unpaired_every": (k % 4)}
    return gen


@st.composite
def random_matching(draw):
    n = draw(st.one_of(st.integers(1, 6), st.integers(1, 60), st.integers(1, 300)))
    rev = draw(st.booleans())
    gap = st.one_of(st.just(1), st.just(1), st.integers(1, 3), st.integers(1, 41))
    r = draw(st.integers(1, 50))
    steps = [(draw(gap), draw(gap)) for _ in range(n - 1)]
    qspan = sum(s[1] for s in steps)
    q = draw(st.integers(1, 50)) + (qspan if rev else 0)
    pairs = [[r, q]]
    for dr, dq in steps:
        r += dr
        q += -dq if rev else dq
        pairs.append([r, q])
    cuts = draw(st.lists(st.integers(1, max(1, n - 1)), max_size=3))
    return {"pairs": pairs, "reverse": rev, "cuts": sorted(set(cuts)), "unpaired_every": draw(st.sampled_from([0, 0, 2, 5]))}


@st.composite
def scale_matching(draw):
    """matchings beyond what a byte or a 16-bit integer holds: runs of 256-700 equal operations (matches, or one gap of
    256-400 skipped labels on either map) and label numbers around 32768 / 65536; few draws, so the cases stay cheap"""
    rev = draw(st.booleans())
    r0 = draw(st.sampled_from([1, 1, 40, 32700, 32767, 40000, 65500, 70000]))
    q0 = draw(st.sampled_from([1, 1, 7, 32760, 65530]))
    runs = draw(st.lists(st.sampled_from([1, 2, 5, 255, 256, 257, 300, 511, 512, 700]), min_size=1, max_size=3))
    gaps = draw(st.lists(st.sampled_from([(1, 1), (2, 1), (1, 2), (3, 2), (256, 1), (1, 256), (300, 257), (1, 400)]),
                         min_size=len(runs) - 1, max_size=len(runs) - 1))
    steps = []
    for k, n in enumerate(runs):
        steps += [(1, 1)] * (n - 1)
        if k < len(gaps):
            steps.append(gaps[k])
    qspan = sum(b for _, b in steps)
    r, q = r0, q0 + (qspan if rev else 0)
    pairs = [[r, q]]
    for dr, dq in steps:
        r += dr
        q += -dq if rev else dq
        pairs.append([r, q])
    cuts = draw(st.lists(st.integers(1, max(1, len(pairs) - 1)), max_size=2))
    return {"pairs": pairs, "reverse": rev, "cuts": sorted(set(cuts)), "unpaired_every": draw(st.sampled_from([0, 0, 7]))}


def check_pipeline(case):
    from vlib import pipeline
    run = pipeline.run_case(case)
    if run.crashed:
        return {"nontrivial": False, "classes": ["pipeline-crash:" + run.crash_signature]}
    nt = False
    cl = []
    n = 0
    for fname, recs in run.files.items():
        for rec in recs:
            n += 1
            pairs = rec["pairs"]
            from vlib.oracles import valid_matching
            if not valid_matching(pairs, rec["Orientation"], None, None, bounds=False):
                cl.append("skipped-invalid-matching(C01)")
                continue
            rev = rec["Orientation"] == "-"
            check_hitenum(rec["HitEnum"], pairs, rev, where=f"{fname} entry {rec['XmapEntryID']}: ")
            rg = any(b[0] - a[0] > 1 for a, b in zip(pairs, pairs[1:]))
            qg = any(abs(b[1] - a[1]) > 1 for a, b in zip(pairs, pairs[1:]))
            if (rg and qg) or len(pairs) == 1 or rev:
                nt = True
            if len(pairs) == 1:
                cl.append("one-pair-record")
    cl.append(f"records={min(n, 3)}")
    return {"nontrivial": nt, "classes": cl}


def subchecks(tier):
    q = tier == "quick"
    from vlib import gen_maps
    subs = [
        Sub("grid-exhaustive", "enum", check_unit, enumerate=enum_grid(8 if q else 10), exhaustive=True,
            describe=f"all valid matchings on a {8 if q else 10}x{8 if q else 10} grid, both orientations", time_budget_s=3000),
        Sub("random-matchings", "hyp", check_unit, strategy=random_matching, examples=10000 if q else 200000, shrink_budget=800,
            required_classes=("I-and-D-in-one-gap", "pairs=1")),
        Sub("scale-matchings", "hyp", check_unit, strategy=scale_matching, examples=600 if q else 20000, shrink_budget=200,
            describe="runs of 256-700 equal operations, gaps of 256-400 labels, label numbers around 2^15 and 2^16"),
        Sub("join-unit", "hyp", check_join_unit, strategy=join_unit.join_case, examples=6000 if q else 150000, shrink_budget=400,
            describe="rows out of AlignmentResults.resolve (unit-level join)"),
        Sub("pipeline", "hyp", check_pipeline, strategy=lambda: gen_maps.pipeline_case(), examples=320 if q else 8000,
            shrink_budget=120, describe="records of generated end-to-end runs", sample_filter=gen_maps.short_case),
    ]
    if not q:
        subs.append(fuzz_variant(next(s for s in subs if s.name == "random-matchings"), 60000))
    return subs
