"""C14 - the chain is a best-scoring admissible order-respecting selection of segments.

Target: SegmentChainer.chain / SequentialityScorer.getScore on real AlignmentSegment objects.
Oracle: exhaustive enumeration of every admissible sequence (brute force), independent
recomputation of the overlap rule and of the sign/zero rules of the join score.
"""
from __future__ import annotations

import math

from hypothesis import strategies as st

from vlib.core import fuzz_variant, Sub, Violation, req, sut

PROPERTY = "C14"
RULE = ("pair-grid: every pair of short segments with every overlap on a 1 bp grid (non-trivial = one overlaps the other by "
        "more than half the shorter); Hypothesis: 1-8 (quick) / 1-12 (thorough) segments on a 10 / 3 / 1 bp grid near a diagonal (overlaps, containment, "
        "off-diagonal shifts, equal keys), 0-2 empty segments, both strands as the pipeline presents them, "
        "sequentialityScore 0/1, multipliers 0.5/1/2; larger sets (<=40) against an independent DP.  "
        "non-trivial = >=3 non-empty segments and the optimum is neither all segments nor a single segment; "
        "distinct = distinct case JSON")
ASSUMPTIONS = ["segment scores are positive (the segment factory emits only scores >= minScore > 0)",
               "coordinates ascend along each segment on both maps; on the reverse strand query coordinates are the "
               "mirrored ones and query label numbers descend (OpticalMap.getPositionsWithSiteIds(reverse=True))",
               "total = segment scores + join scores of consecutive members as computed by the scorer under test "
               "(the join formula is not part of the statement); its sign/zero/-inf rules are checked independently",
               "with equal ordering keys either order is accepted: B_strict <= total <= B_any"]


def build_segments(case):
    """-> (segments list in input order, non-empty indices)"""
    from src.alignment.alignment_position import AlignedPair, ScoredAlignedPair
    from src.alignment.segments import AlignmentSegment, EmptyAlignmentSegment
    from src.correlation.optical_map import PositionWithSiteId
    from src.correlation.peak import Peak
    rev = case["reverse"]
    segs = case["segments"]
    rcoords = sorted({c for s in segs if s for c in (s["rs"], s["re"])})
    qcoords = sorted({c for s in segs if s for c in (s["qs"], s["qe"])})
    rrank = {c: i + 1 for i, c in enumerate(rcoords)}
    qrank = {c: (len(qcoords) - i if rev else i + 1) for i, c in enumerate(qcoords)}
    out = []
    for k, s in enumerate(segs):
        peak = Peak(1000 + k, 30.0)
        if s is None:
            out.append(EmptyAlignmentSegment(peak, []))
            continue

        def pair(r, q):
            return ScoredAlignedPair(AlignedPair(PositionWithSiteId(rrank[r], r), PositionWithSiteId(qrank[q], q), 0), 0.0)
        pos = [pair(s["rs"], s["qs"])]
        if (s["rs"], s["qs"]) != (s["re"], s["qe"]):
            pos.append(pair(s["re"], s["qe"]))
        out.append(AlignmentSegment(pos, s["score"], peak, pos))
    return out


def key_of(s):
    return s["rs"] + s["re"] + s["qs"] + s["qe"]


def half_overlap(p, c):
    """prev p / cur c overlap by more than half the shorter one on either map (from coordinates)."""
    rl = min(p["re"] - p["rs"], c["re"] - c["rs"])
    ql = min(abs(p["qe"] - p["qs"]), abs(c["qe"] - c["qs"]))
    return (p["re"] - c["rs"]) * 2 > rl or (p["qe"] - c["qs"]) * 2 > ql


def check(case, brute=True, shared=None):
    from src.alignment.segment_chainer import SegmentChainer, SequentialityScorer
    segs = case["segments"]
    objs = build_segments(case)
    if shared is None:
        scorer = SequentialityScorer(case["mult"], case["ss"])
        chainer = SegmentChainer(scorer)
    else:
        scorer, chainer = shared
    ne = [i for i, s in enumerate(segs) if s is not None]
    em = [i for i, s in enumerate(segs) if s is None]
    res = sut(chainer.chain, list(objs))
    idx = {id(o): i for i, o in enumerate(objs)}
    req(all(id(o) in idx for o in res), "foreign-segment", "result contains an object that is not an input segment")
    ridx = [idx[id(o)] for o in res]
    req(len(set(ridx)) == len(ridx), "segment-repeated", f"a segment appears twice in the chain: {ridx}")
    r_ne = [i for i in ridx if segs[i] is not None]
    r_em = [i for i in ridx if segs[i] is None]
    req(sorted(r_em) == em, "empties-not-passed-through", f"empty segments in {em}, out {r_em}")
    if not ne:
        req(not r_ne, "nonempty-from-nothing", "non-empty result from only empty input")
        return {"nontrivial": False, "classes": ["only-empty"]}
    req(len(r_ne) >= 1, "empty-chain", "no non-empty segment selected although some exist")
    req(ridx[:len(r_ne)] == r_ne, "empties-not-last-or-mixed", f"result order {ridx}")
    keys = [key_of(segs[i]) for i in r_ne]
    req(all(a <= b for a, b in zip(keys, keys[1:])), "not-diagonal-order", f"chain keys not non-decreasing: {keys}")

    J = {}

    def join(i, j):
        if (i, j) not in J:
            v = sut(scorer.getScore, objs[i], objs[j])
            p, c = segs[i], segs[j]
            req(not (v > 0), "join-positive", f"join score {v} > 0 for {p} -> {c}")
            req(not math.isnan(v), "join-nan", f"join score NaN for {p} -> {c}")
            if p["re"] == c["rs"] and p["qe"] == c["qs"]:
                req(v == 0, "join-contiguous-not-zero", f"contiguous join scores {v} for {p} -> {c}")
            # admissibility is the statement's, not the scorer's: a join is ruled out (minus infinity) exactly when the
            # two segments overlap by more than half the shorter one on either map
            req((v == -math.inf) == half_overlap(p, c), "minus-inf-rule",
                f"join score {v} for {p} -> {c} but overlap by more than half the shorter one is {half_overlap(p, c)}")
            J[(i, j)] = v
        return J[(i, j)]

    total = 0.0
    for a, b in zip(r_ne, r_ne[1:]):
        v = join(a, b)
        req(v != -math.inf, "minus-inf-join-in-chain", f"consecutive members {segs[a]} -> {segs[b]} have join -inf")
        req(not half_overlap(segs[a], segs[b]), "half-overlap-consecutive",
            f"consecutive members overlap by more than half the shorter: {segs[a]} -> {segs[b]} reverse={case['reverse']}")
        total += v
    total += sum(segs[i]["score"] for i in r_ne)
    req(math.isfinite(total), "total-not-finite", f"chain total {total}")

    classes = [f"n={min(len(ne), 9)}", "reverse" if case["reverse"] else "forward", f"ss={case['ss']}"]
    tied = len({key_of(segs[i]) for i in ne}) < len(ne)
    if tied:
        classes.append("tied-keys")
    if brute:
        # every admissible sequence (non-decreasing key, each segment once) by DFS
        order = sorted(ne, key=lambda i: key_of(segs[i]))
        best_any = [-math.inf, None]
        best_strict = [-math.inf, None]

        def dfs(seq, tot, strict):
            if seq:
                if tot > best_any[0]:
                    best_any[0], best_any[1] = tot, list(seq)
                if strict and tot > best_strict[0]:
                    best_strict[0], best_strict[1] = tot, list(seq)
            last = seq[-1] if seq else None
            for j in order:
                if j in seq:
                    continue
                if last is not None:
                    kl, kj = key_of(segs[last]), key_of(segs[j])
                    if kj < kl:
                        continue
                    # same key: any order allowed, but avoid enumerating permutations twice is unnecessary
                    v = join(last, j)
                    if v == -math.inf:
                        continue
                    seq.append(j)
                    dfs(seq, tot + v + segs[j]["score"], strict and kj > kl)
                    seq.pop()
                else:
                    seq.append(j)
                    dfs(seq, float(segs[j]["score"]), strict)
                    seq.pop()
        dfs([], 0.0, True)
        tol = 1e-9 * max(1.0, abs(best_any[0]))
        req(total >= best_strict[0] - tol, "chain-not-optimal",
            f"chain total {total} (members {r_ne}) < brute-force optimum {best_strict[0]} (members {best_strict[1]})")
        req(total <= best_any[0] + tol, "chain-total-above-any-admissible",
            f"chain total {total} exceeds every admissible sequence ({best_any[0]}): order/overlap rules broken")
        opt = best_strict[1]
        nontrivial = len(ne) >= 3 and 1 < len(opt) < len(ne)
        classes.append(f"optlen={min(len(opt), 5)}")
    else:
        # independent O(n^2) DP (keys are distinct in this generator)
        order = sorted(ne, key=lambda i: key_of(segs[i]))
        best = {}
        for pos, j in enumerate(order):
            b = 0.0
            for i in order[:pos]:
                if key_of(segs[i]) == key_of(segs[j]):
                    continue
                v = join(i, j)
                if v != -math.inf and best[i] + v > b:
                    b = best[i] + v
            best[j] = b + segs[j]["score"]
        opt = max(best.values())
        tol = 1e-9 * max(1.0, abs(opt))
        if not tied:
            req(abs(total - opt) <= tol, "chain-not-optimal", f"chain total {total} != DP optimum {opt} over {len(ne)} segments")
        else:
            req(total >= opt - tol, "chain-not-optimal", f"chain total {total} < DP optimum {opt}")
        nontrivial = len(ne) >= 3 and 1 < len(r_ne) < len(ne)
    return {"nontrivial": nontrivial, "classes": classes + [f"chainlen={min(len(r_ne), 5)}"]}


@st.composite
def seg_set(draw, maxn, big=False):
    n = draw(st.integers(1, maxn))
    rev = draw(st.booleans())
    segs = []
    span = 400 if not big else 3000
    distinct_keys = set()
    # coordinate unit: 10 bp grid, or single base pairs on a small span so that odd lengths and overlaps of exactly
    # half the shorter segment (+-1) are frequent (added after seeded change C14-4 was missed on the 10 bp grid)
    u = draw(st.sampled_from([10, 10, 1, 1, 3, 0.5]))       # 0.5: CMAP coordinates carry one decimal (C14-7 was missed on integers)
    if u == 1 and not big:
        span = draw(st.sampled_from([40, 400]))
    for _ in range(n):
        rs = u * draw(st.integers(0, span))
        ln = u * draw(st.one_of(st.integers(0, 12), st.integers(0, 60), st.integers(0, 300)))
        shift = u * draw(st.one_of(st.just(0), st.integers(-15, 15), st.integers(-150, 150)))
        stretch = u * draw(st.one_of(st.just(0), st.integers(-10, 10)))
        qs = max(0, rs + shift)
        qlen = max(0, ln + stretch) if ln > 0 else 0
        if ln > 0 and qlen == 0:
            qlen = u
        s = {"rs": rs, "re": rs + ln, "qs": qs, "qe": qs + qlen,
             "score": draw(st.one_of(st.integers(1, 400), st.integers(100, 3000), st.sampled_from([1000, 2000, 750])))}
        if big:
            if key_of(s) in distinct_keys:
                continue
            distinct_keys.add(key_of(s))
        segs.append(s)
    # sometimes duplicate a segment geometry (equal keys, containment)
    if not big and segs and draw(st.integers(0, 5)) == 0:
        d = dict(draw(st.sampled_from(segs)))
        d["score"] = draw(st.integers(1, 3000))
        segs.insert(draw(st.integers(0, len(segs))), d)
    ne = draw(st.sampled_from([0, 0, 0, 1, 2]))
    for _ in range(ne):
        segs.insert(draw(st.integers(0, len(segs))), None)
    return {"segments": segs, "reverse": rev, "ss": draw(st.sampled_from([0, 0, 1])),
            "mult": draw(st.sampled_from([1, 1, 0.5, 2]))}


def check_history(case):
    """one chainer (and its scorer) used for several segment sets in a row, as one worker uses it for every
    candidate of every query"""
    from src.alignment.segment_chainer import SegmentChainer, SequentialityScorer
    scorer = SequentialityScorer(case["mult"], case["ss"])
    shared = (scorer, SegmentChainer(scorer))
    nt = False
    cl = set()
    for sset in case["sets"]:
        info = check({"segments": sset["segments"], "reverse": sset["reverse"], "mult": case["mult"], "ss": case["ss"]},
                     shared=shared)
        nt = nt or info["nontrivial"]
        cl.update(info["classes"])
    return {"nontrivial": nt, "classes": sorted(cl) + [f"sets={len(case['sets'])}"]}


@st.composite
def history_case(draw):
    first = draw(seg_set(6))
    sets = [first]
    for _ in range(draw(st.integers(1, 2))):
        if draw(st.booleans()):
            sets.append(draw(seg_set(6)))
        else:
            # same distances between segments, other lengths / scores: what an insufficiently keyed memo would confuse
            segs = []
            for sg in sets[-1]["segments"]:
                if sg is None:
                    continue
                cut = draw(st.integers(0, 3))
                u = 1 if (sg["re"] - sg["rs"]) % 10 else 10
                d = dict(sg)
                if cut == 1 and d["re"] - d["rs"] > u and d["qe"] - d["qs"] > u:       # shorten from the far end
                    k = draw(st.integers(1, max(1, min(d["re"] - d["rs"], d["qe"] - d["qs"]) // u - 1))) * u
                    if len(segs) % 2:
                        d["rs"] += k
                        d["qs"] += k
                    else:
                        d["re"] -= k
                        d["qe"] -= k
                elif cut == 2:
                    d["score"] = draw(st.integers(1, 3000))
                segs.append(d)
            sets.append({"segments": segs, "reverse": draw(st.booleans())})
    return {"sets": [{"segments": x["segments"], "reverse": x["reverse"]} for x in sets], "mult": first["mult"], "ss": first["ss"]}


@st.composite
def huge_set(draw):
    """more segments than any bounded look-back would scan: two long segments A and B that follow each other on the
    diagonal, and between them in the pre-order (sum of the four end coordinates) hundreds of short off-diagonal
    segments that chain with nothing; the best chain is A -> B whatever lies between them in the order"""
    n = draw(st.sampled_from([258, 300, 420]))
    rev = draw(st.booleans())
    L = draw(st.integers(5000, 12000))
    gap = draw(st.integers(0, 800))
    A = {"rs": 1000, "re": 1000 + L, "qs": 1000, "qe": 1000 + L, "score": draw(st.integers(3000, 12000))}
    B = {"rs": A["re"] + gap, "re": A["re"] + gap + L, "qs": A["qe"] + gap, "qe": A["qe"] + gap + L, "score": draw(st.integers(3000, 12000))}
    ka, kb = key_of(A), key_of(B)
    off = draw(st.integers(3000, 9000)) * draw(st.sampled_from([1, -1]))
    segs, keys = [], {ka, kb}
    for i in range(n):
        # key strictly between A's and B's; far off the diagonal
        k = ka + 1 + ((i * 7919) % (kb - ka - 50))
        rs = (k - off) // 4
        sg = {"rs": rs, "re": rs + 5 + (i % 7), "qs": max(0, rs + off), "qe": max(0, rs + off) + 5 + (i % 5), "score": 1 + (i * 7) % 60}
        if ka < key_of(sg) < kb and key_of(sg) not in keys:
            keys.add(key_of(sg))
            segs.append(sg)
    out = [A] + segs + [B]
    order = draw(st.sampled_from(["given", "reversed", "interleaved"]))
    if order == "reversed":
        out = out[::-1]
    elif order == "interleaved":
        out = out[::2] + out[1::2]
    return {"segments": out, "reverse": rev, "ss": draw(st.sampled_from([0, 1])), "mult": draw(st.sampled_from([1, 0.5]))}


def pair_grid(maxlen, unit=1):
    """every pair of segments on a 1 bp grid: lengths 0..maxlen on each map (0 on both or >0 on both), second segment
    starting from 2 bp after the first one's end down to its start - 1, independently on the two maps"""
    def gen(shard, nshards):
        k = 0
        lens = [(0, 0)] + [(a, b) for a in range(1, maxlen + 1) for b in range(1, maxlen + 1)]
        for rev in (False, True):
            for ss, mult in ((0, 1), (1, 1), (0, 0.5)):
                for lpr, lpq in lens:
                    for lcr, lcq in lens:
                        for dr in range(-2, lpr + 2):
                            for dq in range(-2, lpq + 2):
                                k += 1
                                if k % nshards != shard:
                                    continue
                                p = {"rs": 20 * unit, "re": (20 + lpr) * unit, "qs": 30 * unit, "qe": (30 + lpq) * unit, "score": 100000}
                                c = {"rs": p["re"] - dr * unit, "re": p["re"] + (lcr - dr) * unit, "qs": p["qe"] - dq * unit,
                                     "qe": p["qe"] + (lcq - dq) * unit, "score": 100000}
                                yield {"segments": [p, c], "reverse": rev, "ss": ss, "mult": mult}
    return gen


def check_pair(case):
    info = check(case)
    p, c = case["segments"]
    info["nontrivial"] = half_overlap(p, c) or half_overlap(c, p)
    info["classes"].append("half-overlap" if info["nontrivial"] else "admissible")
    return info


def subchecks(tier):
    q = tier == "quick"
    subs = [
        Sub("pair-grid", "enum", check_pair, enumerate=pair_grid(5 if q else 7), exhaustive=True,
            describe=f"every pair of segments with lengths <= {5 if q else 7} bp and every overlap on a 1 bp grid, through chain()"),
        Sub("pair-grid-half", "enum", check_pair, enumerate=pair_grid(4 if q else 6, unit=0.5), exhaustive=True,
            describe=f"the same on a 0.5 bp grid (lengths <= {2 if q else 3} bp): fractional lengths and overlaps"),
        Sub("brute-force", "hyp", check, strategy=lambda: seg_set(8 if q else 12), examples=40000 if q else 400000,
            describe="every admissible sequence enumerated", shrink_budget=600,
            required_classes=("tied-keys", "reverse", "ss=1")),
        Sub("chainer-history", "hyp", check_history, strategy=history_case, examples=8000 if q else 150000, shrink_budget=600,
            describe="one chainer/scorer instance reused for 2-3 segment sets (the later ones partly derived from the earlier)"),
        Sub("huge-dp", "hyp", lambda c: check(c, brute=False), strategy=huge_set, examples=48 if q else 1200, shrink_budget=10,
            describe="258-420 segments (two long ones that belong together with hundreds of weak ones between them in key order), independent DP"),
        Sub("large-dp", "hyp", lambda c: check(c, brute=False), strategy=lambda: seg_set(40, big=True),
            examples=4000 if q else 60000, describe="<=40 segments, distinct keys, independent DP", shrink_budget=400),
    ]
    if not q:
        subs.append(fuzz_variant(next(s for s in subs if s.name == "brute-force"), 40000))
    return subs
