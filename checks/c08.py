"""C08 - output modes agree; joined records are justified by and faithful to their parts.

The same generated input is run in all four modes (in-process driver, file text only).
Oracle: differential between modes + structural relation between a joined record and its parts.
"""
from __future__ import annotations

from hypothesis import strategies as st

from vlib import gen_maps, join_unit, pipeline, scale, xmap_text
from vlib.core import Sub, Violation, req
from vlib.oracles import valid_matching

PROPERTY = "C08"
RULE = ("generated CMAP sets biased to partial, chimeric, indel and repeat queries, run in all four output modes with -diff in "
        "{0,1000,20000,100000} or set adaptively to g / g-1 where g is the reference gap of an observed first/second-pass pair; "
        "non-trivial = case with >=1 joined record or >=1 first/second-pass pair of one query on one reference and strand that "
        "was not joined; join-unit: first-pass row of a molecule with an indel / one-label slip + second-pass row of its own fragment "
        "through AlignmentResults.resolve (non-trivial = a joined row); distinct = distinct case")
ASSUMPTIONS = ["'best' mode's main file is not compared with the other modes (it may hold the better of the two passes or its own join)",
               "whether an eligible pair is joined at all is not asserted; only joined => justified and faithful",
               "reference gap = max(0, max(RefStartPos) - min(RefEndPos)) from the file text (one decimal)"]

KINDS = ["partial", "partial", "chimeric", "indel", "indel", "repeat", "noisy", "exact", "stretched", "short"]


def data_lines(run, suf):
    return [r["line"] for r in run.files.get(suf, [])]


def sans_id(line):
    return line.split("\t", 1)[1]


def gap_of(f, s):
    return max(0.0, max(float(f["RefStartPos"]), float(s["RefStartPos"])) - min(float(f["RefEndPos"]), float(s["RefEndPos"])))


def check_many(case):
    """more than a hundred second-pass fragments in one run: modes 'all' and 'separate' still agree and the AlignedRest
    flags still tell the two passes apart"""
    A = pipeline.run_case(case, mode="all", record=False)
    S = pipeline.run_case(case, mode="separate", record=False)
    if A.crashed or S.crashed:
        return {"nontrivial": False, "classes": ["pipeline-crash:" + str(A.crash_signature or S.crash_signature)]}
    for r in (A, S):
        req(set(r.raw) == pipeline.EXPECTED_FILES[r.mode], "mode-file-set", f"mode {r.mode} wrote files {sorted(r.raw)}")
    for sa, sb in (("_1", "main"), ("_2", "_1")):
        req(xmap_text.strip_volatile(A.raw[sa]) == xmap_text.strip_volatile(S.raw[sb]), "modes-disagree",
            f"file {sa} of mode all differs from file {sb} of mode separate ({len(A.files[sa])} vs {len(S.files[sb])} records)")
    for suf, flag in (("_1", "False"), ("_2", "True")):
        for rec in A.files[suf]:
            req(rec.get("AlignedRest") == flag, "alignedrest-flag", f"record of file {suf} (query {rec['QryContigID']}) has AlignedRest={rec.get('AlignedRest')}")
    n2 = len(A.files["_2"])
    return {"nontrivial": n2 > 128, "classes": [f"second-pass-records>={128 if n2 > 128 else 0}"]}


def union_signature(a_pairs, b_pairs, joined_pairs):
    """the union of the parts is a valid matching but the joined record is not it: which root cause?
    'joined-drops-pair-lying-in-a-gap-of-the-other-part' when every missing pair belongs to one part only and both its
    labels fall strictly inside the other part's label range without being paired there (the parts interleave: one part
    pairs a label that the other part's segment spans as unpaired) - known finding F13; anything else is the general
    'joined-not-the-valid-union'"""
    a, b = set(a_pairs), set(b_pairs)
    missing = (a | b) - set(joined_pairs)

    def in_gap(pair, other):
        r, q = pair
        rs, qs = [x for x, _ in other], [y for _, y in other]
        return bool(other) and min(rs) < r < max(rs) and r not in rs and min(qs) < q < max(qs) and q not in qs
    if missing and all((p in a and p not in b and in_gap(p, b)) or (p in b and p not in a and in_gap(p, a)) for p in missing):
        return "joined-drops-pair-lying-in-a-gap-of-the-other-part"
    return "joined-not-the-valid-union"


def check_modes(case, probe=True):
    runs = {}
    for mode in gen_maps.MODES:
        r = pipeline.run_case(case, mode=mode, record=False)
        if r.crashed:
            return {"nontrivial": False, "classes": ["pipeline-crash:" + r.crash_signature]}
        if r.format_error:
            return {"nontrivial": False, "classes": ["format-error(C07)"]}
        runs[mode] = r
    for mode, r in runs.items():
        req(set(r.raw) == pipeline.EXPECTED_FILES[mode], "mode-file-set", f"mode {mode} wrote files {sorted(r.raw)}, expected {sorted(pipeline.EXPECTED_FILES[mode])}")
    A, J, S = runs["all"], runs["joined"], runs["separate"]
    for (ra, sa, rb, sb) in ((A, "main", J, "main"), (A, "_1", S, "main"), (A, "_2", S, "_1")):
        req(xmap_text.strip_volatile(ra.raw[sa]) == xmap_text.strip_volatile(rb.raw[sb]), "modes-disagree",
            f"file {sa} of mode {ra.mode} differs from file {sb} of mode {rb.mode}")
    for rec in A.files["_1"]:
        req(rec.get("AlignedRest") == "False", "alignedrest-flag", f"first-pass record (query {rec['QryContigID']}) has AlignedRest={rec.get('AlignedRest')}")
    for rec in A.files["_2"]:
        req(rec.get("AlignedRest") == "True", "alignedrest-flag", f"second-pass record (query {rec['QryContigID']}) has AlignedRest={rec.get('AlignedRest')}")
    singles = A.files["_1"] + A.files["_2"]
    unjoined = [sans_id(l) for l in data_lines(J, "_1")]
    joined_by_q = {}
    for rec in J.files["main"]:
        joined_by_q.setdefault(rec["QryContigID"], []).append(rec)
    for q, lst in joined_by_q.items():
        req(len(lst) == 1, "two-joined-records-for-one-query", f"query {q} has {len(lst)} joined records")
    single_keys = [sans_id(r["line"]) for r in singles]
    for u in unjoined:
        req(u in single_keys, "unjoined-record-from-nowhere", f"record of joined-mode _1 file is not a first/second-pass record: {u[:80]}")
    req(len(unjoined) == len(set(unjoined)) or sorted(unjoined) == sorted(k for k in single_keys if k in set(unjoined)),
        "unjoined-record-duplicated", "a record occurs more often among the un-joined records than among the single-pass records")
    for rec in singles:
        in_un = sans_id(rec["line"]) in unjoined
        has_j = rec["QryContigID"] in joined_by_q
        req(in_un or has_j, "single-pass-record-lost", f"record of query {rec['QryContigID']} (AlignedRest={rec['AlignedRest']}) is neither among the un-joined records nor joined")
        req(not (in_un and has_j), "single-pass-record-both-joined-and-unjoined",
            f"record of query {rec['QryContigID']} (AlignedRest={rec['AlignedRest']}) is among the un-joined records although the query has a joined record")
    maxdiff = float((case.get("args") or {}).get("-diff", 100000))
    first = {r["QryContigID"]: r for r in A.files["_1"]}
    second = {r["QryContigID"]: r for r in A.files["_2"]}
    njoined = nelig = 0
    gaps = []
    cl = []
    for q, (jr,) in ((q, tuple(l)) for q, l in joined_by_q.items()):
        njoined += 1
        req(q in first and q in second, "joined-without-two-parts", f"joined record of query {q} but first-pass={q in first} second-pass={q in second}")
        f, s = first[q], second[q]
        req(f["RefContigID"] == s["RefContigID"] == jr["RefContigID"], "joined-across-references",
            f"query {q}: joined on reference {jr['RefContigID']}, parts on {f['RefContigID']} / {s['RefContigID']}")
        req(f["Orientation"] == s["Orientation"] == jr["Orientation"], "joined-across-strands",
            f"query {q}: joined orientation {jr['Orientation']}, parts {f['Orientation']} / {s['Orientation']}")
        g = gap_of(f, s)
        gaps.append((q, g))
        req(g <= maxdiff + 0.051, "joined-beyond-maxdifference", f"query {q}: parts are {g} bp apart on the reference, maxDifference {maxdiff}")
        union = set(f["pairs"]) | set(s["pairs"])
        jp = jr["pairs"]
        req(set(jp) <= union, "joined-invents-pairs", f"query {q}: joined record has pairs not in either part: {sorted(set(jp) - union)[:6]}")
        u = sorted(union)
        if valid_matching(u, jr["Orientation"], bounds=False):
            cl.append("union-valid")
            req(list(jp) == u, union_signature(f["pairs"], s["pairs"], jp),
                f"query {q}: the union of the parts is a valid matching of {len(u)} pairs but the joined record lists {len(jp)}; missing {sorted(union - set(jp))[:8]}")
        else:
            cl.append("union-invalid")
    for q in first:
        if q in second and q not in joined_by_q:
            f, s = first[q], second[q]
            if f["RefContigID"] == s["RefContigID"] and f["Orientation"] == s["Orientation"]:
                nelig += 1
                gaps.append((q, gap_of(f, s)))
    # boundary probe: with maxDifference just below an observed gap that pair must not be joined
    if probe and gaps:
        q, g = max(gaps, key=lambda x: x[1])
        gi = int(g)
        if gi >= 1:
            for d, may_join in ((gi - 1, False),):
                c2 = dict(case, args=dict(case.get("args") or {}, **{"-diff": d}))
                r2 = pipeline.run_case(c2, mode="joined", record=False)
                if not r2.crashed and not r2.format_error:
                    jq = {r["QryContigID"] for r in r2.files.get("main", [])}
                    if g > d + 0.051:
                        req(q not in jq, "joined-beyond-maxdifference", f"query {q}: parts {g} bp apart were joined with -diff {d}")
                    cl.append("boundary-probe")
    if njoined:
        cl.append("joined")
    if nelig:
        cl.append("eligible-unjoined")
    if second:
        cl.append("second-pass")
    return {"nontrivial": bool(njoined or nelig), "classes": sorted(set(cl))}


def check_join_unit(case):
    """AlignmentResults.resolve on a first-pass row and the second-pass row of one of its own fragments (see
    vlib/join_unit.py): joined => same reference and strand, gap <= maxDifference, pairs a subset of the parts' union and
    equal to it when the union is a valid matching; every part is either returned un-joined or went into the one joined
    row; the parts themselves are left as they were (mode 'all' writes them after the join)"""
    jr = join_unit.run(case)
    cl = [f"mode={case['mode']}", "rev" if case["rev"] else "fwd"]
    nt = False
    for st_ in jr.steps:
        a, b, joined, separate = st_["a"], st_["b"], st_["joined"], st_["separate"]
        maxdiff = st_.get("maxdiff", case["maxdiff"])
        where = f"resolve({st_['kind']}, fragment shift/labels {st_['fragment']}, maxDifference {maxdiff})"
        req(len(joined) <= 1, "two-joined-records-for-one-query", f"{where}: {len(joined)} joined rows")
        after = (join_unit.snapshot(a), join_unit.snapshot(b))
        req(after == st_["before"], "join-mutates-its-parts",
            lambda: f"{where}: the single-pass rows changed while being joined: pairs {st_['before'][0][0][-4:]} / {st_['before'][1][0][:4]} -> {after[0][0][-4:]} / {after[1][0][:4]}")
        if joined:
            cl.append("joined")
            nt = True
            j = joined[0]
            req(not separate, "single-pass-record-both-joined-and-unjoined", f"{where}: a joined row and {len(separate)} un-joined rows")
            req(a.referenceId == b.referenceId == j.referenceId, "joined-across-references", f"{where}: references {a.referenceId}/{b.referenceId} -> {j.referenceId}")
            req(a.orientation == b.orientation == j.orientation, "joined-across-strands", f"{where}: orientations {a.orientation}/{b.orientation} -> {j.orientation}")
            g = max(0.0, max(a.referenceStartPosition, b.referenceStartPosition) - min(a.referenceEndPosition, b.referenceEndPosition))
            req(g <= maxdiff + 1e-6, "joined-beyond-maxdifference", f"{where}: parts {g} bp apart")
            if "maxdiff" in st_:
                cl.append("joined-at-gap-threshold")
            union = set(join_unit.pairs_of(a)) | set(join_unit.pairs_of(b))
            jp = join_unit.pairs_of(j)
            req(set(jp) <= union, "joined-invents-pairs", f"{where}: joined row has pairs not in either part: {sorted(set(jp) - union)[:6]}")
            u = sorted(union)
            if valid_matching(u, j.orientation, bounds=False):
                cl.append("union-valid")
                req(jp == u, union_signature(join_unit.pairs_of(a), join_unit.pairs_of(b), jp),
                    lambda: f"{where}: the union of the parts is a valid matching of {len(u)} pairs but the joined row lists {len(jp)}; missing {sorted(union - set(jp))[:8]}")
            else:
                cl.append("union-invalid")
        else:
            req(len(separate) == 2 and all(x is a or x is b for x in separate) and (a is b or separate[0] is not separate[1]),
                "single-pass-record-lost", f"{where}: not joined, but the rows returned un-joined are not the two parts ({len(separate)} rows)")
            cl.append("not-joined")
    if not jr.steps:
        cl.append("no-second-pass")
    return {"nontrivial": nt, "classes": sorted(set(cl))}


@st.composite
def strategy(draw):
    case = draw(gen_maps.pipeline_case(flank_repeat=2, modes=["all"], kinds=KINDS, max_queries=5,
                                       options=["-diff", "-sp", "-d", "-p", "-ms", "-su", "-ss", "-sj"], weight_default=4,
                                       ref_sizes=("small", "medium", "medium", "large")))
    return case


def subchecks(tier):
    q = tier == "quick"
    return [Sub("four-modes", "hyp", check_modes, strategy=strategy, examples=320 if q else 8000, shrink_budget=60,
                describe="same input in best/separate/joined/all + boundary probe", sample_filter=gen_maps.short_case,
                required_classes=("joined", "union-valid", "boundary-probe")),
            Sub("many-queries", "hyp", check_many, strategy=lambda: scale.many_queries_case(two_part=True, counts=(150, 200)),
                examples=1 if q else 16, shrink_budget=0, skip_first=True, shards=1 if q else 16, sample_filter=scale.short, time_budget_s=3000,
                describe="150-200 two-part molecules (more than a hundred second-pass fragments) in modes all and separate"),
            Sub("join-unit", "hyp", check_join_unit, strategy=join_unit.join_case, examples=12000 if q else 300000, shrink_budget=600,
                describe="AlignmentResults.resolve on a first-pass row and the second-pass row of its own fragment (unit level)",
                required_classes=("joined", "not-joined", "union-valid"))]
