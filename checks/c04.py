"""C04 - Confidence is exactly the configured score of what is reported.

Observed: Program.run() result rows, every dispatched candidate (segments, positions, peak), the
Confidence column text; unit level: Aligner.align on ladders of peaks.
Oracle: recomputation from harness maps + harness copy of the parameters; C12/C13 reference models
tie -ms/-bs to the command line for single-seed candidates.
"""
from __future__ import annotations

from hypothesis import strategies as st

from checks.c13 import reference_scan
from vlib import gen_maps, gen_unit, pipeline
from vlib.core import Sub, req, sut

PROPERTY = "C04"
RULE = ("pipeline: generated CMAP sets with -sp/-dp/-su/-d/-ms/-bs drawn from {500,1500,2000}x{0.5,2}x{0,-100,-600,-1000}x"
        "{300,800,3000,6000}x{1,500,2000,3000}x{0,600,2500} (defaults over-represented), all modes; every result row, every "
        "candidate, every Confidence cell; unit: Aligner.align on real label data with ladders of peaks and the same parameter "
        "draws.  non-trivial = candidate/record with >=2 segments and an unpaired position inside a segment, or non-default "
        "scoring parameters; distinct = distinct case")
ASSUMPTIONS = ["'inside a segment' = member of the segment's run (trimmed segments may begin/end with unpaired positions)",
               "query-side completeness of second-pass candidates is checked within the fragment's label range",
               "Confidence text compared within 0.0051 + 1e-9*|x|; recomputed sums within 1e-6*max(1,|x|)",
               "joined rows ('best'/'joined'/'all' main) are checked segment by segment like any other row"]

DEF = {"-sp": 1000, "-dp": 1.0, "-su": -250, "-d": 1500, "-ms": 1000, "-bs": 1200}


def close(a, b, rel=1e-6):
    return abs(a - b) <= rel * max(1.0, abs(a), abs(b))


def check_row(row, R, Q, par, where, frag=None):
    """R, Q: harness models {'labels','first','last','n'} (Q in original coordinates); par: -sp.. dict.
    frag: (lo, hi) label range of the aligned fragment or None for the whole query."""
    from src.alignment.alignment_position import (AlignedPair, NotAlignedQueryPosition, NotAlignedReferencePosition,
                                                  ScoredNotAlignedPosition)
    sp, dp, su, d = par["-sp"], par["-dp"], par["-su"], par["-d"]
    rev = row.reverseStrand

    def rpos(r):
        return R["labels"][r - 1]

    def qpos(q):
        return (Q["last"] - Q["labels"][q - 1]) if rev else (Q["labels"][q - 1] - Q["first"])

    seen_r, seen_q = {}, {}
    total = 0.0
    nseg = 0
    inner_unpaired = False
    for si, seg in enumerate(row.segments):
        if not seg.positions:
            req(seg.segmentScore == 0, "empty-segment-with-score", f"{where}: empty segment {si} has score {seg.segmentScore}")
            continue
        nseg += 1
        P = float(seg.peak.position)
        ssum = 0.0
        coords = []
        seg_r, seg_q = set(), set()
        for k, p in enumerate(seg.positions):
            if isinstance(p, AlignedPair):
                r, q = p.reference.siteId, p.query.siteId
                req(1 <= r <= R["n"] and 1 <= q <= Q["n"], "position-names-unknown-label", f"{where}: segment {si} pair ({r},{q}) names a label that does not exist")
                req(close(p.reference.position, rpos(r)) and close(p.query.position, qpos(q)), "pair-coordinate-wrong",
                    f"{where}: pair ({r},{q}) carries coordinates ({p.reference.position},{p.query.position}), maps say ({rpos(r)},{qpos(q)})")
                off = qpos(q) - (rpos(r) - P)
                req(abs(off) <= d + 1e-6, "pair-beyond-maxpairdistance", f"{where}: pair ({r},{q}) is {off:.1f} from the seed diagonal {P}, maxPairDistance {d}")
                req(close(p.queryShift, off), "stored-offset-wrong", f"{where}: pair ({r},{q}) stored offset {p.queryShift}, recomputed {off}")
                c = sp - dp * abs(off)
                req(close(p.score, c), "pair-score-wrong", f"{where}: pair ({r},{q}) offset {off:.1f} scored {p.score}, expected {sp} - {dp}*|offset| = {c}")
                seg_r.add(r)
                seg_q.add(q)
                seen_r.setdefault(r, []).append(si)
                seen_q.setdefault(q, []).append(si)
                coords.append(rpos(r))
            else:
                inner = p.position if isinstance(p, ScoredNotAlignedPosition) else p
                if isinstance(inner, NotAlignedReferencePosition):
                    r = inner.reference.siteId
                    req(1 <= r <= R["n"], "position-names-unknown-label", f"{where}: unpaired reference label {r} does not exist")
                    req(close(inner.reference.position, rpos(r)), "unpaired-coordinate-wrong", f"{where}: unpaired reference label {r} at {inner.reference.position}, map says {rpos(r)}")
                    seen_r.setdefault(r, []).append(si)
                    req(r not in seg_r, "label-twice-in-segment", f"{where}: reference label {r} twice in segment {si}")
                    seg_r.add(r)
                    coords.append(rpos(r))
                elif isinstance(inner, NotAlignedQueryPosition):
                    q = inner.query.siteId
                    req(1 <= q <= Q["n"], "position-names-unknown-label", f"{where}: unpaired query label {q} does not exist")
                    req(close(inner.query.position, qpos(q)), "unpaired-coordinate-wrong", f"{where}: unpaired query label {q} at {inner.query.position}, map says {qpos(q)}")
                    seen_q.setdefault(q, []).append(si)
                    req(q not in seg_q, "label-twice-in-segment", f"{where}: query label {q} twice in segment {si}")
                    seg_q.add(q)
                    coords.append(qpos(q) + P)
                else:
                    req(False, "unknown-position-type", f"{where}: {type(p).__name__}")
                req(close(p.score, su), "unpaired-score-wrong", f"{where}: unpaired position scored {p.score}, unmatchedPenalty is {su}")
                c = su
                if 0 < k < len(seg.positions) - 1:
                    inner_unpaired = True
            ssum += c
        req(all(a <= b + 1e-6 for a, b in zip(coords, coords[1:])), "segment-positions-not-ascending", f"{where}: segment {si} positions not in ascending diagonal order")
        lo, hi = coords[0], coords[-1]
        for r in range(1, R["n"] + 1):
            if lo + 1e-6 < rpos(r) < hi - 1e-6:
                req(r in seg_r, "reference-label-unaccounted", f"{where}: reference label {r} at {rpos(r)} lies inside segment {si} [{lo},{hi}] but is not accounted for")
        qlo, qhi = frag if frag else (1, Q["n"])
        for q in range(qlo, qhi + 1):
            if lo + 1e-6 < qpos(q) + P < hi - 1e-6:
                req(q in seg_q, "query-label-unaccounted", f"{where}: query label {q} (diagonal {qpos(q) + P}) lies inside segment {si} [{lo},{hi}] but is not accounted for")
        req(close(seg.segmentScore, ssum), "segment-score-not-sum", f"{where}: segment {si} score {seg.segmentScore}, recomputed sum {ssum}")
        total += ssum
    for r, lst in seen_r.items():
        req(len(lst) == 1, "label-counted-twice", f"{where}: reference label {r} is counted in segments {lst}")
    for q, lst in seen_q.items():
        req(len(lst) == 1, "label-counted-twice", f"{where}: query label {q} is counted in segments {lst}")
    req(close(row.confidence, total), "confidence-not-sum", f"{where}: confidence {row.confidence}, recomputed {total}")
    return nseg, inner_unpaired


def check_single_seed_segmentation(row, par, where):
    """candidate built from one seed peak: its segments are the reference segmentation under the CLI's -ms/-bs"""
    peaks = {id(s.peak) for s in row.segments}
    if len(peaks) != 1 or not row.segments:
        return False
    allpos = row.segments[0].allPeakPositions
    if not allpos:
        return False
    scores = [p.score for p in allpos]
    if any(float(x * 2) != round(x * 2) for x in scores):
        # inexact float scores (e.g. -dp 0.35): the factory compares a naive running sum with Python 3.12's compensated
        # sum(), so threshold equalities are decided by rounding; the reference scan is only authoritative on exact scores
        return False
    exp, _, _ = reference_scan(scores, par["-ms"], par["-bs"])
    ident = {id(p): i for i, p in enumerate(allpos)}
    got = []
    for s in row.segments:
        if s.positions:
            idx = [ident.get(id(p)) for p in s.positions]
            if None in idx:
                return False
            got.append((idx[0], idx[-1] + 1))
    # chaining may drop segments, never reshape them (runs cut from one position list cannot conflict)
    req(set(got) <= set(exp) and (bool(got) or not exp), "segments-not-under-cli-thresholds",
        f"{where}: segments {got} but minScore {par['-ms']} / breakSegmentThreshold {par['-bs']} give {exp}")
    return True


def params_of(case):
    par = dict(DEF)
    for k, v in (case.get("args") or {}).items():
        if k in par:
            par[k] = v
    return par


def check_pipeline(case):
    from src.extensions.messages import AlignmentResultRowMessage
    run = pipeline.run_case(case)
    if run.crashed:
        return {"nontrivial": False, "classes": ["pipeline-crash:" + run.crash_signature]}
    par = params_of(case)
    nondefault = any(par[k] != DEF[k] for k in DEF)
    cl = ["nondefault-params" if nondefault else "default-params"]
    nt = False
    frag_of = {}
    for m in run.messages:
        if isinstance(m, AlignmentResultRowMessage):
            row = m.alignment
            rid, qid = m.reference.moleculeId, m.query.moleculeId
            if rid not in run.refs or qid not in run.queries:
                continue
            fr = (m.query.shift + 1, m.query.shift + len(m.query.positions))
            frag_of[id(row)] = fr
            whole = fr == (1, run.queries[qid]["n"])
            where = f"candidate query {qid} ref {rid} {'-' if row.reverseStrand else '+'} labels {fr}"
            nseg, inner = check_row(row, run.refs[rid], run.queries[qid], par, where, None if whole else fr)
            if check_single_seed_segmentation(row, par, where):
                cl.append("single-seed-segmentation")
            if nseg >= 2 and inner:
                nt = True
                cl.append("multi-segment-with-unpaired")
            if not whole:
                cl.append("fragment-candidate")
    conf_by_key = {}
    for row in run.rows or []:
        rid, qid = row.referenceId, row.queryId
        if rid not in run.refs or qid not in run.queries:
            continue
        where = f"mode {run.mode} result row query {qid} ref {rid} {row.orientation}"
        fr = frag_of.get(id(row))
        if fr is None:
            cl.append("joined-row")
            # a joined row: query-side completeness within the labels its own segments carry
            qs = [p.query.siteId for p in row.alignedPairs]
            fr = (min(qs), max(qs)) if qs else None
        elif fr == (1, run.queries[qid]["n"]):
            fr = None
        check_row(row, run.refs[rid], run.queries[qid], par, where, fr)
        conf_by_key[(qid, rid)] = row.confidence
    main = run.files.get("main", [])
    req(len(main) == len(run.rows or []), "rows-vs-records", f"{len(run.rows or [])} result rows but {len(main)} records in the main file")
    for rec, row in zip(main, run.rows or []):
        try:
            c = float(rec["Confidence"])
        except (KeyError, ValueError):
            req(False, "confidence-not-numeric", f"Confidence cell {rec.get('Confidence')!r}")
        req(abs(c - row.confidence) <= 0.0051 + 1e-9 * abs(c), "confidence-text-wrong",
            f"mode {run.mode} main entry {rec.get('XmapEntryID')}: Confidence text {rec['Confidence']}, row confidence {row.confidence}")
        cl.append("record")
    return {"nontrivial": nt or (nondefault and bool(main)), "classes": sorted(set(cl))}


def check_unit(case):
    ref, qry = gen_unit.build_maps(case)
    p = dict(gen_unit.DEFAULT_PARAMS, **case["params"])
    aligner = gen_unit.build_aligner(case["params"])
    row = sut(aligner.align, ref, qry, gen_unit.build_peaks(case), case["rev"])
    R = {"labels": case["ref"], "n": len(case["ref"])}
    Q = {"labels": case["query"], "n": len(case["query"]), "first": case["query"][0], "last": case["query"][-1]}
    par = {"-sp": p["sp"], "-dp": p["dp"], "-su": p["su"], "-d": p["d"], "-ms": p["ms"], "-bs": p["bs"]}
    pairs = [(x.reference.siteId, x.query.siteId) for x in row.alignedPairs]
    from vlib.oracles import valid_matching
    if pairs and not valid_matching(pairs, "-" if case["rev"] else "+", R["n"], Q["n"]):
        return {"nontrivial": False, "classes": ["skipped-invalid-matching(C01)"]}
    nseg, inner = check_row(row, R, Q, par, f"Aligner.align candidate ({len(case['peaks'])} peaks)")
    cl = [f"segments={min(nseg, 3)}"]
    if check_single_seed_segmentation(row, par, "single-seed candidate"):
        cl.append("single-seed-segmentation")
    return {"nontrivial": (nseg >= 2 and inner) or bool(case["params"]) and nseg >= 1, "classes": cl}


def pipeline_strategy():
    return gen_maps.pipeline_case(options=["-sp", "-dp", "-su", "-d", "-ms", "-bs", "-p", "-ss"], weight_default=2,
                                  kinds=["exact", "noisy", "noisy", "stretched", "stretched", "indel", "indel", "chimeric", "partial", "repeat"])


def subchecks(tier):
    q = tier == "quick"
    return [
        Sub("aligner-unit", "hyp", check_unit, strategy=lambda: gen_unit.mixed_case(1, 6), examples=16000 if q else 400000,
            shrink_budget=500, required_classes=("single-seed-segmentation", "segments=2")),
        Sub("pipeline", "hyp", check_pipeline, strategy=pipeline_strategy, examples=1000 if q else 24000, shrink_budget=120,
            sample_filter=gen_maps.short_case, required_classes=("fragment-candidate", "joined-row", "single-seed-segmentation")),
    ]
