"""C09 - output does not depend on the number of worker processes or on the run.

Real CLI, real process pool; the launcher perturbs the completion order of the per-query workers.
Oracle: differential between schedules (byte identity with the -c 1 unperturbed run).
"""
from __future__ import annotations

import os
import shutil
import tempfile

from hypothesis import strategies as st

from vlib import gen_maps, pipeline, scale, xmap_text
from vlib.core import VERIF_DIR, HarnessError, Sub, req

PROPERTY = "C09"
RULE = ("generated CMAP sets with 4-12 queries of skewed cost (first query the longest), any output mode; each input run through "
        "the CLI with -c 1 unperturbed, then with -c in {1,2,16,drawn 3..15} x perturbation seeds (per-query delays of 0-40 ms in the "
        "pool workers) and a drawn PYTHONHASHSEED per run; five in six of the inputs also carry a [P][M][P] molecule whose two second-pass "
        "fragments score exactly alike.  non-trivial = a run whose logged completion order differs from the submission "
        "order; distinct = distinct (case, cpus, completion order)")
ASSUMPTIONS = ["only the '# coma ...' header line (it echoes -c and the output path) is excluded from the comparison",
               "schedules reached are those the delays produce; not all interleavings of 16 workers"]

LAUNCHER = os.path.join(VERIF_DIR, "vlib", "launcher.py")


def strip_coma(text):
    return "\n".join(l for l in text.split("\n") if not l.startswith("# coma "))


def completion_order(path):
    if not os.path.exists(path):
        return []
    rows = []
    with open(path) as f:
        for line in f:
            p = line.rstrip("\n").split("\t")
            if len(p) == 4:
                rows.append((float(p[0]), int(p[1]), int(p[2]), int(p[3])))
    rows.sort()
    return [(r[1], r[2], r[3]) for r in rows]


def check(case):
    d = tempfile.mkdtemp(prefix="coma_c09_")
    try:
        base = pipeline.run_cli(case, cpus=1, workdir=d, outname="o00x")
        if base.crashed:
            if base.returncode == 97:
                raise HarnessError("launcher cannot find the per-query worker")
            return {"nontrivial": False, "classes": ["pipeline-crash:" + str(base.crash_signature)]}
        ref_files = {s: strip_coma(t) for s, t in base.raw.items()}
        submit = [q["id"] for q in case["queries"] if q["labels"]]
        cl = [f"mode={base.mode}"]
        nt = 0
        for k, sched in enumerate(case["schedules"], 1):
            cpus, pseed = sched[0], sched[1]
            log = os.path.join(d, f"order{k}.log")
            env = {"VERIF_ORDER_LOG": log}
            if pseed:
                env["VERIF_PERTURB"] = str(pseed)
            if len(sched) > 2:
                # "on every repetition": a user's runs do not share a string-hash seed
                env["PYTHONHASHSEED"] = str(sched[2])
                cl.append("hashseed-varied")
            r = pipeline.run_cli(case, cpus=cpus, launcher=LAUNCHER, env_extra=env, workdir=d, outname=f"o{k:02d}x")
            if r.returncode == 97:
                raise HarnessError("launcher cannot find the per-query worker")
            where = f"run with -c {cpus}, perturbation {pseed!r}, PYTHONHASHSEED {env.get('PYTHONHASHSEED', '0')}"
            req(not r.crashed, "schedule-dependent-crash", f"{where}: exit {r.returncode}: {r.crash_text}")
            req(set(r.raw) == set(ref_files), "schedule-dependent-file-set", f"{where}: files {sorted(r.raw)} vs {sorted(ref_files)} with -c 1")
            for suf, t in r.raw.items():
                if strip_coma(t) != ref_files[suf]:
                    a, b = strip_coma(t).split("\n"), ref_files[suf].split("\n")
                    diff = next((i for i, (x, y) in enumerate(zip(a, b)) if x != y), min(len(a), len(b)))
                    req(False, "output-depends-on-schedule",
                        f"{where}: file {suf} differs from the -c 1 unperturbed run at line {diff + 1} ({len(a)} vs {len(b)} lines)")
            order = completion_order(log)
            first = [o[0] for o in order if o[1] == 0 and True][:len(submit)]
            fp = [o[0] for o in order[:len(submit)]]
            if fp and fp != submit[:len(fp)]:
                nt += 1
                cl.append("order-inverted")
            cl.append(f"cpus={'1' if cpus == 1 else '2' if cpus == 2 else '16' if cpus == 16 else '3-15'}")
        return {"nontrivial": nt > 0, "classes": sorted(set(cl)), }
    finally:
        shutil.rmtree(d, ignore_errors=True)


@st.composite
def strategy(draw, nsched):
    case = draw(gen_maps.pipeline_case(max_queries=11, min_queries=3, weight_default=6,
                                       kinds=["exact", "noisy", "stretched", "indel", "chimeric", "partial", "repeat", "short"],
                                       ref_sizes=("medium", "large", "large")))
    # skew: a long first query (costly) ahead of the others
    ref = max(case["refs"], key=lambda r: len(r["labels"]))
    lab = [p - ref["labels"][0] for p in ref["labels"]]
    lab = lab[:max(2, len(lab) - 1)]
    big = {"id": 99999 + draw(st.integers(1, 50)), "labels": [gen_maps.r1(p) for p in lab], "length": gen_maps.r1(lab[-1] + 1),
           "truth": {"kind": "long-first"}}
    case["queries"] = [big] + [q for q in case["queries"] if q["id"] != big["id"]]
    if draw(st.integers(0, 5)) > 0:
        gen_maps.add_flank_repeat(draw, case)
    hs = st.integers(1, 4294967295)
    sched = [(1, 0, draw(hs)), (2, draw(st.integers(1, 10 ** 6)), draw(hs)), (16, draw(st.integers(1, 10 ** 6)), draw(hs))]
    while len(sched) < nsched:
        sched.append((draw(st.sampled_from([2, 3, 4, 5, 8, 11, 16])), draw(st.integers(1, 10 ** 6)), draw(hs)))
    case["schedules"] = sched
    return case


def sample_filter(case):
    out = gen_maps.short_case(case)
    return out


@st.composite
def many_strategy(draw, nsched=2):
    case = draw(scale.many_queries_case(two_part=draw(st.booleans()), counts=(257, 300)))
    case["mode"] = draw(st.sampled_from(["all", "all", "separate", "joined"]))
    hs = st.integers(1, 4294967295)
    case["schedules"] = [(2, draw(st.integers(1, 10 ** 6)), draw(hs)), (draw(st.sampled_from([3, 4, 16])), draw(st.integers(1, 10 ** 6)), draw(hs))][:nsched]
    return case


def subchecks(tier):
    q = tier == "quick"
    n = 6 if q else 10
    return [Sub("schedules", "hyp", check, strategy=lambda: strategy(n), examples=24 if q else 240, shrink_budget=4,
                sample_filter=sample_filter, time_budget_s=3000, required_classes=("order-inverted", "cpus=16", "hashseed-varied")),
            Sub("many-queries", "hyp", check, strategy=lambda: many_strategy(1 if q else 2), examples=1 if q else 16, shrink_budget=0, skip_first=True, shards=1 if q else 16,
                sample_filter=scale.short, time_budget_s=3000,
                describe="257-300 query molecules (more than any batch size tied to --cpus), -c 1 vs -c 2 and -c 3..16, side files compared too")]
