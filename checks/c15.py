"""C15 - conflict resolution only trims inside the overlap and leaves no shared label.

Targets: AlignmentSegmentConflictResolver.resolveConflicts on segment lists produced from real label
data by several nearby seed peaks (Aligner.getSegments), and checkForConflicts(...).resolveConflict()
on consecutive chain members.  Oracle: invariant over input/output (identity of position objects).
"""
from __future__ import annotations

import itertools

from hypothesis import strategies as st

from vlib import gen_unit
from vlib.core import fuzz_variant, Sub, req, sut

PROPERTY = "C15"
RULE = ("segment lists from real integer label data (stretched molecules, indels, repeats, dropouts, both strands) and ladders of 2-8 "
        "nearby seed peaks through Aligner.getSegments, all maxDistance/threshold draws; resolved as a list and pairwise.  "
        "non-trivial = chain of >=3 segments in which >=1 segment was trimmed; distinct = distinct case")
ASSUMPTIONS = ["the chain is obtained from the chainer under test (decided by C14); the resolver is judged on what it does with that chain",
               "'before/after on both maps' is evaluated on label numbers (query numbers negated on the reverse strand)"]


def snapshot(segments):
    return [(id(s), [id(p) for p in s.positions], [p.score for p in s.positions], s.segmentScore) for s in segments]


def pair_key(p, rev):
    return (p.reference.siteId, -p.query.siteId if rev else p.query.siteId)


def check_output(inputs, chain, outputs, rev, where):
    """inputs: list of input segments; chain: input segments in chain order; outputs: resolved list"""
    from src.alignment.alignment_position import AlignedPair
    owner = {}
    for s in inputs:
        for k, p in enumerate(s.positions):
            owner[id(p)] = (s, k)
    out_of = {}
    for o in outputs:
        if not o.positions:
            req(o.segmentScore == 0, "empty-segment-with-score", f"{where}: empty output segment has score {o.segmentScore}")
            continue
        own = [owner.get(id(p)) for p in o.positions]
        req(all(x is not None for x in own), "position-not-from-input", f"{where}: output segment holds a position object that is in no input segment")
        src = own[0][0]
        req(all(x[0] is src for x in own), "segment-mixes-inputs", f"{where}: output segment mixes positions of several input segments")
        idx = [x[1] for x in own]
        req(idx == list(range(idx[0], idx[0] + len(idx))), "not-a-contiguous-subrun", f"{where}: output segment is not a contiguous sub-run of its input segment: indexes {idx}")
        req(id(src) not in out_of, "input-segment-twice", f"{where}: two output segments stem from the same input segment")
        req(any(src is c for c in chain), "segment-not-from-chain", f"{where}: output segment stems from a segment that is not in the chain")
        out_of[id(src)] = o
        tot = sum(p.score for p in o.positions)
        req(abs(o.segmentScore - tot) <= 1e-6 * max(1, abs(tot)), "score-not-recomputed", f"{where}: output segment score {o.segmentScore}, sum of remaining positions {tot}")
        req(o.peak is src.peak, "peak-changed", f"{where}: output segment lost its seed peak")
    # no shared label, no crossing
    pairs = []
    for n_, o in enumerate(outputs):
        for p in o.positions:
            if isinstance(p, AlignedPair):
                pairs.append((p.reference.siteId, p.query.siteId, n_))
    rs = sorted(pairs)
    for (r1, q1, a), (r2, q2, b) in zip(rs, rs[1:]):
        req(r1 != r2, "shared-reference-label", f"{where}: reference label {r1} is paired in output segments {a} and {b}")
    qs = sorted(pairs, key=lambda x: x[1])
    for (r1, q1, a), (r2, q2, b) in zip(qs, qs[1:]):
        req(q1 != q2, "shared-query-label", f"{where}: query label {q1} is paired in output segments {a} and {b}")
    for (r1, q1, a), (r2, q2, b) in zip(rs, rs[1:]):
        ok = q2 < q1 if rev else q2 > q1
        req(ok, "segments-cross", f"{where}: pairs ({r1},{q1}) of segment {a} and ({r2},{q2}) of segment {b} cross")
    # removed pairs lie in an overlap zone
    trimmed = 0
    for ci, s in enumerate(chain):
        if not s.positions:
            continue
        kept = {id(p) for p in out_of[id(s)].positions} if id(s) in out_of else set()
        removed = [p for p in s.positions if isinstance(p, AlignedPair) and id(p) not in kept]
        if removed:
            trimmed += 1
        for p in removed:
            pk = pair_key(p, rev)
            justified = False
            for cj, t in enumerate(chain):
                if t is s or not t.alignedPositions:
                    continue
                if cj > ci:
                    f = pair_key(t.alignedPositions[0], rev)
                    if not (pk[0] < f[0] and pk[1] < f[1]):
                        justified = True
                else:
                    l = pair_key(t.alignedPositions[-1], rev)
                    if not (pk[0] > l[0] and pk[1] > l[1]):
                        justified = True
            req(justified, "pair-removed-outside-overlap",
                f"{where}: pair ({p.reference.siteId},{p.query.siteId}) of chain member {ci} was removed although it lies before every later member's "
                f"first pair and after every earlier member's last pair")
    return trimmed


def make_segments(case):
    ref, qry = gen_unit.build_maps(case)
    aligner = gen_unit.build_aligner(case["params"])
    peaks = gen_unit.build_peaks(case)
    segs = list(itertools.chain.from_iterable(sut(aligner.getSegments, case["rev"], p, qry, ref) for p in peaks))
    return aligner, segs


def check_list(case):
    aligner, segs = make_segments(case)
    resolver = aligner.segmentConflictResolver
    before = snapshot(segs)
    chain = [s for s in sut(resolver.segmentChainer.chain, list(segs))]
    res = sut(resolver.resolveConflicts, list(segs))
    req(snapshot(segs) == before, "inputs-mutated", "resolveConflicts changed its input segments")
    outputs = res.segments
    nchain = sum(1 for s in chain if s.positions)
    if len(segs) < 2:
        return {"nontrivial": False, "classes": ["single-segment"]}
    trimmed = check_output(segs, chain, outputs, case["rev"], f"resolveConflicts({len(segs)} segments, chain of {nchain})")
    return {"nontrivial": nchain >= 3 and trimmed >= 1,
            "classes": [f"chain={min(nchain, 5)}", f"trimmed={min(trimmed, 3)}", "rev" if case["rev"] else "fwd"]}


def check_pairwise(case):
    aligner, segs = make_segments(case)
    resolver = aligner.segmentConflictResolver
    chain = [s for s in sut(resolver.segmentChainer.chain, list(segs)) if s.positions]
    n = 0
    trimmed_any = 0
    for a, b in zip(chain, chain[1:]):
        before = snapshot([a, b])
        l, r = sut(lambda: a.checkForConflicts(b).resolveConflict())
        req(snapshot([a, b]) == before, "inputs-mutated", "resolveConflict changed its input segments")
        trimmed_any += check_output([a, b], [a, b], [l, r], case["rev"], "checkForConflicts(left,right).resolveConflict()")
        n += 1
    return {"nontrivial": trimmed_any >= 1, "classes": [f"pairs={min(n, 4)}", f"trimmed={min(trimmed_any, 3)}"]}


def check_subtract(case):
    """AlignmentSegment.__sub__ as the resolver uses it (a prefix or a suffix of the positions is taken away): what is
    left is the rest of the run, from its first to its last pair, whatever its scores add up to"""
    from src.alignment.alignment_position import (AlignedPair, NotAlignedQueryPosition, NotAlignedReferencePosition,
                                                  ScoredAlignedPair, ScoredNotAlignedPosition)
    from src.alignment.segments import AlignmentSegment
    from src.correlation.optical_map import PositionWithSiteId
    from src.correlation.peak import Peak
    pos = []
    for i, (sc, kd) in enumerate(zip(case["scores"], case["kinds"])):
        p = PositionWithSiteId(i + 1, 1000 * (i + 1))
        if kd == 0:
            pos.append(ScoredAlignedPair(AlignedPair(p, p, 0), sc))
        elif kd == 1:
            pos.append(ScoredNotAlignedPosition(NotAlignedReferencePosition(p), sc))
        else:
            pos.append(ScoredNotAlignedPosition(NotAlignedQueryPosition(p, 0), sc))
    peak = Peak(77, 30.0)
    seg = AlignmentSegment.create(list(pos), peak, list(pos))
    cut = case["cut"]
    removed, rest = (pos[:cut], pos[cut:]) if case["side"] == "head" else (pos[cut:], pos[:cut])
    results = [("list", sut(lambda: seg - list(removed)))]
    if removed:
        results.append(("segment", sut(lambda: seg - AlignmentSegment.create(list(removed), peak, list(pos)))))
    want_pairs = [id(p) for p in rest if isinstance(p, AlignedPair)]
    for how, res in results:
        got = [id(p) for p in res.positions if isinstance(p, AlignedPair)]
        req(got == want_pairs, "pair-lost-by-subtraction",
            f"segment with scores {case['scores']} minus its {case['side']} of {len(removed)} positions ({how}): {len(got)} of the {len(want_pairs)} remaining pairs are left")
        idx = {id(p): i for i, p in enumerate(pos)}
        ii = [idx.get(id(p)) for p in res.positions]
        req(None not in ii and ii == list(range(ii[0], ii[0] + len(ii))) if ii else True, "not-a-contiguous-subrun", f"what is left is not a contiguous run of the segment: {ii}")
        tot = sum(p.score for p in res.positions)
        req(abs(res.segmentScore - tot) <= 1e-9, "score-not-recomputed", f"score {res.segmentScore}, sum of what is left {tot}")
    zero = sum(p.score for p in rest) == 0 and bool(want_pairs)
    return {"nontrivial": zero, "classes": ["rest-sums-to-zero" if zero else "rest-nonzero", case["side"]]}


@st.composite
def subtract_case(draw):
    n = draw(st.integers(1, 9))
    kinds = draw(st.lists(st.sampled_from([0, 0, 0, 1, 2]), min_size=n, max_size=n))
    scores = [draw(st.sampled_from([1, 2, 3, 1000, 0, 0.0, -1, -2, 500, -500])) if k == 0 else draw(st.sampled_from([0, -1, -2, -250, -500]))
              for k in kinds]
    return {"scores": scores, "kinds": kinds, "cut": draw(st.integers(0, n)), "side": draw(st.sampled_from(["head", "tail"]))}


def strategy():
    return gen_unit.mixed_case(min_peaks=2, max_peaks=8)


def subchecks(tier):
    q = tier == "quick"
    subs = [
        Sub("resolve-list", "hyp", check_list, strategy=strategy, examples=16000 if q else 600000, shrink_budget=600,
            required_classes=("chain=3", "trimmed=1")),
        Sub("swarm", "hyp", check_list, strategy=gen_unit.swarm_case, examples=400 if q else 12000, shrink_budget=100,
            describe="18-40 seed peaks 25-100 bp apart on a molecule of 1-3 labels: chains of dozens of segments over the same labels"),
        Sub("long-segment", "hyp", check_list, strategy=lambda: gen_unit.junction_case(long_head=True), examples=2000 if q else 40000, shrink_budget=30,
            describe="junction cases whose first segment runs over 250-520 labels (position lists longer than 256) before the conflict",
            sample_filter=lambda c: dict(c, ref=f"{len(c['ref'])} labels", query=f"{len(c['query'])} labels")),
        Sub("subtract-unit", "hyp", check_subtract, strategy=subtract_case, examples=12000 if q else 300000, shrink_budget=800,
            describe="AlignmentSegment.__sub__ with a prefix / suffix of the positions, scores from a small alphabet (remainders that sum to exactly zero)",
            required_classes=("rest-sums-to-zero",)),
        Sub("resolve-pairwise", "hyp", check_pairwise, strategy=strategy, examples=8000 if q else 300000, shrink_budget=600),
    ]
    if not q:
        subs.append(fuzz_variant(next(s for s in subs if s.name == "resolve-list"), 40000))
    return subs
