"""C15 - conflict resolution only trims inside the overlap and leaves no shared label.

Targets: AlignmentSegmentConflictResolver.resolveConflicts on segment lists produced from real label
data by several nearby seed peaks (Aligner.getSegments), and checkForConflicts(...).resolveConflict()
on consecutive chain members.  Oracle: invariant over input/output (identity of position objects).
"""
from __future__ import annotations

import itertools

from hypothesis import strategies as st

from vlib import gen_unit
from vlib.core import fuzz_variant, Sub, req, sut

PROPERTY = "C15"
RULE = ("segment lists from real integer label data (stretched molecules, indels, repeats, dropouts, both strands) and ladders of 2-8 "
        "nearby seed peaks through Aligner.getSegments, all maxDistance/threshold draws; resolved as a list and pairwise.  "
        "non-trivial = chain of >=3 segments in which >=1 segment was trimmed; distinct = distinct case")
ASSUMPTIONS = ["the chain is obtained from the chainer under test (decided by C14); the resolver is judged on what it does with that chain",
               "'before/after on both maps' is evaluated on label numbers (query numbers negated on the reverse strand)"]


def snapshot(segments):
    return [(id(s), [id(p) for p in s.positions], [p.score for p in s.positions], s.segmentScore) for s in segments]


def pair_key(p, rev):
    return (p.reference.siteId, -p.query.siteId if rev else p.query.siteId)


def check_output(inputs, chain, outputs, rev, where):
    """inputs: list of input segments; chain: input segments in chain order; outputs: resolved list"""
    from src.alignment.alignment_position import AlignedPair
    owner = {}
    for s in inputs:
        for k, p in enumerate(s.positions):
            owner[id(p)] = (s, k)
    out_of = {}
    for o in outputs:
        if not o.positions:
            req(o.segmentScore == 0, "empty-segment-with-score", f"{where}: empty output segment has score {o.segmentScore}")
            continue
        own = [owner.get(id(p)) for p in o.positions]
        req(all(x is not None for x in own), "position-not-from-input", f"{where}: output segment holds a position object that is in no input segment")
        src = own[0][0]
        req(all(x[0] is src for x in own), "segment-mixes-inputs", f"{where}: output segment mixes positions of several input segments")
        idx = [x[1] for x in own]
        req(idx == list(range(idx[0], idx[0] + len(idx))), "not-a-contiguous-subrun", f"{where}: output segment is not a contiguous sub-run of its input segment: indexes {idx}")
        req(id(src) not in out_of, "input-segment-twice", f"{where}: two output segments stem from the same input segment")
        req(any(src is c for c in chain), "segment-not-from-chain", f"{where}: output segment stems from a segment that is not in the chain")
        out_of[id(src)] = o
        tot = sum(p.score for p in o.positions)
        req(abs(o.segmentScore - tot) <= 1e-6 * max(1, abs(tot)), "score-not-recomputed", f"{where}: output segment score {o.segmentScore}, sum of remaining positions {tot}")
        req(o.peak is src.peak, "peak-changed", f"{where}: output segment lost its seed peak")
    # no shared label, no crossing
    pairs = []
    for n_, o in enumerate(outputs):
        for p in o.positions:
            if isinstance(p, AlignedPair):
                pairs.append((p.reference.siteId, p.query.siteId, n_))
    rs = sorted(pairs)
    for (r1, q1, a), (r2, q2, b) in zip(rs, rs[1:]):
        req(r1 != r2, "shared-reference-label", f"{where}: reference label {r1} is paired in output segments {a} and {b}")
    qs = sorted(pairs, key=lambda x: x[1])
    for (r1, q1, a), (r2, q2, b) in zip(qs, qs[1:]):
        req(q1 != q2, "shared-query-label", f"{where}: query label {q1} is paired in output segments {a} and {b}")
    for (r1, q1, a), (r2, q2, b) in zip(rs, rs[1:]):
        ok = q2 < q1 if rev else q2 > q1
        req(ok, "segments-cross", f"{where}: pairs ({r1},{q1}) of segment {a} and ({r2},{q2}) of segment {b} cross")
    # removed pairs lie in an overlap zone
    trimmed = 0
    for ci, s in enumerate(chain):
        if not s.positions:
            continue
        kept = {id(p) for p in out_of[id(s)].positions} if id(s) in out_of else set()
        removed = [p for p in s.positions if isinstance(p, AlignedPair) and id(p) not in kept]
        if removed:
            trimmed += 1
        for p in removed:
            pk = pair_key(p, rev)
            justified = False
            for cj, t in enumerate(chain):
                if t is s or not t.alignedPositions:
                    continue
                if cj > ci:
                    f = pair_key(t.alignedPositions[0], rev)
                    if not (pk[0] < f[0] and pk[1] < f[1]):
                        justified = True
                else:
                    l = pair_key(t.alignedPositions[-1], rev)
                    if not (pk[0] > l[0] and pk[1] > l[1]):
                        justified = True
            req(justified, "pair-removed-outside-overlap",
                f"{where}: pair ({p.reference.siteId},{p.query.siteId}) of chain member {ci} was removed although it lies before every later member's "
                f"first pair and after every earlier member's last pair")
    return trimmed


def make_segments(case):
    ref, qry = gen_unit.build_maps(case)
    aligner = gen_unit.build_aligner(case["params"])
    peaks = gen_unit.build_peaks(case)
    segs = list(itertools.chain.from_iterable(sut(aligner.getSegments, case["rev"], p, qry, ref) for p in peaks))
    return aligner, segs


def check_list(case):
    aligner, segs = make_segments(case)
    resolver = aligner.segmentConflictResolver
    before = snapshot(segs)
    chain = [s for s in sut(resolver.segmentChainer.chain, list(segs))]
    res = sut(resolver.resolveConflicts, list(segs))
    req(snapshot(segs) == before, "inputs-mutated", "resolveConflicts changed its input segments")
    outputs = res.segments
    nchain = sum(1 for s in chain if s.positions)
    if len(segs) < 2:
        return {"nontrivial": False, "classes": ["single-segment"]}
    trimmed = check_output(segs, chain, outputs, case["rev"], f"resolveConflicts({len(segs)} segments, chain of {nchain})")
    return {"nontrivial": nchain >= 3 and trimmed >= 1,
            "classes": [f"chain={min(nchain, 5)}", f"trimmed={min(trimmed, 3)}", "rev" if case["rev"] else "fwd"]}


def check_pairwise(case):
    aligner, segs = make_segments(case)
    resolver = aligner.segmentConflictResolver
    chain = [s for s in sut(resolver.segmentChainer.chain, list(segs)) if s.positions]
    n = 0
    trimmed_any = 0
    for a, b in zip(chain, chain[1:]):
        before = snapshot([a, b])
        l, r = sut(lambda: a.checkForConflicts(b).resolveConflict())
        req(snapshot([a, b]) == before, "inputs-mutated", "resolveConflict changed its input segments")
        trimmed_any += check_output([a, b], [a, b], [l, r], case["rev"], "checkForConflicts(left,right).resolveConflict()")
        n += 1
    return {"nontrivial": trimmed_any >= 1, "classes": [f"pairs={min(n, 4)}", f"trimmed={min(trimmed_any, 3)}"]}


def strategy():
    return gen_unit.mixed_case(min_peaks=2, max_peaks=8)


def subchecks(tier):
    q = tier == "quick"
    subs = [
        Sub("resolve-list", "hyp", check_list, strategy=strategy, examples=16000 if q else 600000, shrink_budget=600,
            required_classes=("chain=3", "trimmed=1")),
        Sub("resolve-pairwise", "hyp", check_pairwise, strategy=strategy, examples=8000 if q else 300000, shrink_budget=600),
    ]
    if not q:
        subs.append(fuzz_variant(next(s for s in subs if s.name == "resolve-list"), 40000))
    return subs
