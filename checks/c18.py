"""C18 - XMAP written by COMA reads back to the same alignments.

Round-trip oracle: writer -> text -> project reader, compared with the text (independent parser) and
with the harness maps.
"""
from __future__ import annotations

import argparse
import io
import math

from hypothesis import strategies as st

from vlib import gen_maps, gen_unit, pipeline, xmap_text
from vlib import scale
from vlib.core import Sub, req, sut

PROPERTY = "C18"
RULE = ("(a) every file (main/_1/_2) of generated end-to-end runs in all modes, read back with a reader built as Program builds it; "
        "(b) rows from unit-level Aligner.align calls written by XmapReader.writeAlignments to a buffer and read back.  non-trivial = "
        "file with >=2 records including a '-' or second-pass record; one- and zero-record files are counted as classes; distinct = "
        "distinct case")
ASSUMPTIONS = ["coordinates/lengths read back must equal int() (truncation) of the written text values, confidence the written 2-decimal value",
               "pair coordinates: reference label coordinate and query label coordinate relative to the query's first label (the maps the run used)"]


def compare(als, parsed, R_of, Q_of, where):
    recs = parsed["records"]
    req(len(als) == len(recs), "reader-record-count", f"{where}: {len(recs)} records written, {len(als)} alignments read")
    for a, r in zip(als, recs):
        w = f"{where} entry {r['XmapEntryID']}"
        req(str(int(a.alignmentId)) == r["XmapEntryID"], "roundtrip-entry-id", f"{w}: read id {a.alignmentId}")
        req(str(a.queryId) == r["QryContigID"] and str(a.referenceId) == r["RefContigID"], "roundtrip-molecule-ids",
            f"{w}: read query/reference {a.queryId}/{a.referenceId}, written {r['QryContigID']}/{r['RefContigID']}")
        req(a.orientation == r["Orientation"] and a.reverseStrand == (r["Orientation"] == "-"), "roundtrip-orientation", f"{w}: read orientation {a.orientation}, written {r['Orientation']}")
        req(a.cigarString == r["HitEnum"], "roundtrip-hitenum", f"{w}: read HitEnum {a.cigarString!r}, written {r['HitEnum']!r}")
        got = [(p.reference.siteId, p.query.siteId) for p in a.alignedPairs]
        req(got == r["pairs"], "roundtrip-pairs", lambda: f"{w}: read {len(got)} pairs {got[:5]}.., written {len(r['pairs'])} {r['pairs'][:5]}..")
        for attr, col in (("queryStartPosition", "QryStartPos"), ("queryEndPosition", "QryEndPos"), ("referenceStartPosition", "RefStartPos"),
                          ("referenceEndPosition", "RefEndPos"), ("queryLength", "QryLen"), ("referenceLength", "RefLen")):
            req(getattr(a, attr) == int(float(r[col])), "roundtrip-coordinate", f"{w}: {attr} read {getattr(a, attr)}, written {col}={r[col]}")
        req(abs(float(a.confidence) - float(r["Confidence"])) <= 1e-9, "roundtrip-confidence", f"{w}: confidence read {a.confidence}, written {r['Confidence']}")
        R, Q = R_of(a.referenceId), Q_of(a.queryId)
        for p in a.alignedPairs:
            req(abs(p.reference.position - R["labels"][p.reference.siteId - 1]) <= 1e-6, "roundtrip-pair-coordinate",
                f"{w}: reference label {p.reference.siteId} read at {p.reference.position}, map says {R['labels'][p.reference.siteId - 1]}")
            req(abs(p.query.position - (Q["labels"][p.query.siteId - 1] - Q["first"])) <= 1e-6, "roundtrip-pair-coordinate",
                f"{w}: query label {p.query.siteId} read at {p.query.position}, map says {Q['labels'][p.query.siteId - 1] - Q['first']}")


def check_pipeline(case):
    from src.parsers.xmap_alignment_pair_parser import XmapAlignmentPairWithDistanceParser
    from src.parsers.xmap_reader import XmapReader
    run = pipeline.run_case(case, record=False)
    if run.crashed:
        return {"nontrivial": False, "classes": ["pipeline-crash:" + run.crash_signature]}
    if run.format_error:
        return {"nontrivial": False, "classes": ["format-error(C07)"]}
    cl = [f"mode={run.mode}"]
    nt = False
    for suf, text in run.raw.items():
        # the reader the program itself holds (built in Program.__init__ from the maps it aligned), then one built the same way
        own = getattr(run.program, "xmapReader", None)
        if own is not None:
            als0 = sut(own.readAlignments, io.StringIO(text))
            compare(als0, run.parsed[suf], lambda i: run.refs[i], lambda i: run.queries[i], f"mode {run.mode} file {suf} (Program.xmapReader)")
        reader = XmapReader(XmapAlignmentPairWithDistanceParser(run.program.referenceMaps, run.program.queryMaps))
        als = sut(reader.readAlignments, io.StringIO(text))
        compare(als, run.parsed[suf], lambda i: run.refs[i], lambda i: run.queries[i], f"mode {run.mode} file {suf}")
        recs = run.files[suf]
        if suf == "main" and run.rows is not None and len(run.rows) == len(als):
            # the rows handed to the writer: confidence must survive to two decimals
            for a, row in zip(als, run.rows):
                req(abs(float(a.confidence) - row.confidence) <= 0.0051 + 1e-9 * abs(row.confidence), "roundtrip-confidence-vs-row",
                    f"mode {run.mode} main entry {a.alignmentId}: confidence read back {a.confidence}, the alignment's confidence is {row.confidence!r}")
                if round(row.confidence * 10) != row.confidence * 10:
                    cl.append("confidence-with-second-decimal")
        cl.append("zero-record-file" if not recs else "one-record-file" if len(recs) == 1 else "multi-record-file")
        if len(recs) >= 2 and any(r["Orientation"] == "-" or r.get("AlignedRest") == "True" for r in recs):
            nt = True
    return {"nontrivial": nt, "classes": sorted(set(cl))}


def check_unit(case):
    from src.alignment.alignment_results import AlignmentResults
    from src.parsers.xmap_alignment_pair_parser import XmapAlignmentPairWithDistanceParser
    from src.parsers.xmap_reader import XmapReader
    ref, qry = gen_unit.build_maps(case)
    aligner = gen_unit.build_aligner(case["params"])
    peaks = gen_unit.build_peaks(case)
    rows = []
    for sub in (peaks, peaks[:1], peaks[-1:]):
        row = sut(aligner.align, ref, qry, sub, case["rev"])
        if row.alignedPairs:
            rows.append(row)
    rows = rows[:case.get("nrows", 3)]
    if case.get("tile") and rows:
        rows = [rows[i % len(rows)] for i in range(case["tile"])]      # a result set of a thousand records and more
    buf = io.StringIO()
    args = argparse.Namespace(referenceFile="ref.cmap", queryFile="qry.cmap", outputMode="best")
    sut(XmapReader().writeAlignments, buf, AlignmentResults("ref.cmap", "qry.cmap", rows), args)
    text = buf.getvalue()
    try:
        parsed = xmap_text.parse(text)
    except xmap_text.XmapFormatError as e:
        req(False, "xmap-malformed", str(e))
    req(len(parsed["records"]) == len(rows), "writer-record-count", f"{len(rows)} rows written as {len(parsed['records'])} records")
    ids = [r["XmapEntryID"] for r in parsed["records"]]
    bad = next((i for i, x in enumerate(ids, 1) if x != str(i)), None)
    req(bad is None, "entry-ids-not-1-2-3", f"record {bad} of {len(ids)} carries XmapEntryID {ids[bad - 1] if bad else None}")
    reader = XmapReader(XmapAlignmentPairWithDistanceParser([ref], [qry]))
    als = sut(reader.readAlignments, io.StringIO(text))
    R = {"labels": case["ref"]}
    Q = {"labels": case["query"], "first": case["query"][0]}
    compare(als, parsed, lambda i: R, lambda i: Q, "buffer")
    for a, row in zip(als, rows):
        req([(p.reference.siteId, p.query.siteId) for p in row.alignedPairs] == [(p.reference.siteId, p.query.siteId) for p in a.alignedPairs],
            "roundtrip-pairs-vs-row", "pairs read back differ from the row that was written")
        req(a.cigarString == row.cigarString, "roundtrip-hitenum-vs-row", f"HitEnum read {a.cigarString!r}, row has {row.cigarString!r}")
        req(a.queryStartPosition == int(float(f"{row.queryStartPosition:.1f}")), "roundtrip-coordinate-vs-row", "QryStartPos read back differs from the row")
        req(abs(float(a.confidence) - row.confidence) <= 0.0051 + 1e-9 * abs(row.confidence), "roundtrip-confidence-vs-row",
            f"confidence read back {a.confidence}, the alignment's confidence is {row.confidence!r}")
    return {"nontrivial": len(rows) >= 2 and case["rev"], "classes": [f"rows={len(rows)}", "rev" if case["rev"] else "fwd"]}


@st.composite
def many_records_strategy(draw):
    c = draw(gen_unit.aligner_case(1, 4))
    c["nrows"] = 3
    c["tile"] = draw(st.sampled_from([999, 1000, 1001, 1024, 2001, 2300, 4097]))
    return c


@st.composite
def unit_strategy(draw):
    c = draw(gen_unit.aligner_case(1, 5))
    c["nrows"] = draw(st.sampled_from([0, 1, 2, 3]))
    return c


def subchecks(tier):
    q = tier == "quick"
    return [
        Sub("pipeline-files", "hyp", check_pipeline, strategy=lambda: gen_maps.pipeline_case(weight_default=4), examples=1000 if q else 30000,
            shrink_budget=100, sample_filter=gen_maps.short_case, required_classes=("zero-record-file", "one-record-file", "multi-record-file", "confidence-with-second-decimal")),
        Sub("writer-reader-unit", "hyp", check_unit, strategy=unit_strategy, examples=5000 if q else 100000, shrink_budget=300,
            required_classes=("rows=0", "rows=1")),
        Sub("many-records", "hyp", check_unit, strategy=many_records_strategy, examples=48 if q else 800, shrink_budget=6,
            describe="999-4097 records in one file (rows of a unit-level alignment repeated): entry ids 1,2,3,..., read back in order"),
        Sub("huge-reference", "hyp", check_pipeline, strategy=scale.huge_reference_case, examples=1 if q else 16, shrink_budget=0, skip_first=True,
            shards=1 if q else 16, sample_filter=scale.short, time_budget_s=3000,
            describe="files written for a reference of 33 000-36 000 labels: label numbers above 32 767 read back"),
    ]
