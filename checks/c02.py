"""C02 - record fields agree with the listed pairs and with the input maps.

File text (independent parser) vs the CMAP text the harness wrote.  Oracle: invariant recomputed
from raw inputs.
"""
from __future__ import annotations

from hypothesis import strategies as st

from vlib import gen_maps, pipeline
from vlib import scale
from vlib.core import Sub, req
from vlib.oracles import valid_matching

PROPERTY = "C02"
RULE = ("generated CMAP sets x 4 output modes x CLI parameter draws (strands, offsets, trailing lengths, fractional coordinates, "
        "chimeric/partial/indel queries for second-pass records, molecule ids unrelated to file positions); every record of every "
        "file.  non-trivial = case with a '-' record, a second-pass record or a record of a query whose first label is not at 0; "
        "distinct = distinct case")
ASSUMPTIONS = ["records that are not valid matchings are C01's to report and are skipped",
               "QryLen may be last-first or last-first+1 (both readings of 'measured from first to last label'); RefLen within 1 of "
               "ContigLength (the reader truncates); one-decimal columns compared within 0.051"]

TOL = 0.051

KINDS = ["exact", "noisy", "stretched", "indel", "chimeric", "chimeric", "partial", "partial", "repeat", "short"]


def fnum(rec, col, where):
    try:
        return float(rec[col])
    except (KeyError, ValueError):
        req(False, "field-not-numeric", f"{where}: column {col} = {rec.get(col)!r}")


def check_record(rec, run, suf, where):
    req(rec.get("Orientation") in ("+", "-"), "orientation-invalid", f"{where}: Orientation {rec.get('Orientation')!r}")
    try:
        rid, qid = int(rec["RefContigID"]), int(rec["QryContigID"])
    except (KeyError, ValueError):
        req(False, "ids-not-integers", f"{where}: RefContigID/QryContigID {rec.get('RefContigID')!r}/{rec.get('QryContigID')!r}")
    req(rid in run.refs, "record-names-unknown-reference", f"{where}: RefContigID {rid} is not an input map")
    req(qid in run.queries, "record-names-unknown-query", f"{where}: QryContigID {qid} is not an input map")
    R, Q = run.refs[rid], run.queries[qid]
    ori = rec["Orientation"]
    pairs = rec["pairs"]
    if pairs:
        # the clauses below speak of "the first and last listed reference labels" and "the two outermost aligned query labels":
        # an end label that is no label of the input map (number outside 1..n) has no coordinate the fields could agree with
        for what, num, n in (("first listed reference", pairs[0][0], R["n"]), ("last listed reference", pairs[-1][0], R["n"]),
                             ("lowest listed query", min(q for _, q in pairs), Q["n"]), ("highest listed query", max(q for _, q in pairs), Q["n"])):
            req(1 <= num <= n, "end-label-not-in-input-map", f"{where}: {what} label is number {num}, the input map has labels 1..{n}")
    if not valid_matching(pairs, ori, R["n"], Q["n"]):
        return "skipped-invalid-matching(C01)"
    reflen = fnum(rec, "RefLen", where)
    req(abs(reflen - R["length"]) < 1 + 1e-6, "reflen-wrong", f"{where}: RefLen {reflen}, reference ContigLength {R['length']}")
    qlen = fnum(rec, "QryLen", where)
    span = Q["last"] - Q["first"]
    req(-TOL <= qlen - span <= 1 + TOL, "qrylen-wrong", f"{where}: QryLen {qlen}, query first-to-last label distance {span}")
    rs, re_ = fnum(rec, "RefStartPos", where), fnum(rec, "RefEndPos", where)
    exp_rs, exp_re = R["labels"][pairs[0][0] - 1], R["labels"][pairs[-1][0] - 1]
    req(abs(rs - exp_rs) <= TOL, "refstart-wrong", f"{where}: RefStartPos {rs}, first listed reference label {pairs[0][0]} is at {exp_rs}")
    req(abs(re_ - exp_re) <= TOL, "refend-wrong", f"{where}: RefEndPos {re_}, last listed reference label {pairs[-1][0]} is at {exp_re}")
    qs, qe = fnum(rec, "QryStartPos", where), fnum(rec, "QryEndPos", where)
    qmin, qmax = min(q for _, q in pairs), max(q for _, q in pairs)
    if ori == "+":
        exp_qs, exp_qe = Q["labels"][qmin - 1] - Q["first"], Q["labels"][qmax - 1] - Q["first"]
        req(qs <= qe + 1e-9, "qry-start-after-end", f"{where}: '+' record with QryStartPos {qs} > QryEndPos {qe}")
    else:
        exp_qs, exp_qe = Q["last"] - Q["labels"][qmin - 1], Q["last"] - Q["labels"][qmax - 1]
        req(qs >= qe - 1e-9, "qry-start-before-end", f"{where}: '-' record with QryStartPos {qs} < QryEndPos {qe}")
    req(abs(qs - exp_qs) <= TOL, "qrystart-wrong",
        f"{where}: QryStartPos {qs}, expected {exp_qs:.1f} (query label {qmin}, orientation {ori}, AlignedRest={rec.get('AlignedRest')})")
    req(abs(qe - exp_qe) <= TOL, "qryend-wrong",
        f"{where}: QryEndPos {qe}, expected {exp_qe:.1f} (query label {qmax}, orientation {ori}, AlignedRest={rec.get('AlignedRest')})")
    return None


def check(case):
    run = pipeline.run_case(case, record=False)
    if run.crashed:
        return {"nontrivial": False, "classes": ["pipeline-crash:" + run.crash_signature]}
    if run.format_error:
        return {"nontrivial": False, "classes": ["format-error(C07)"]}
    cl = [f"mode={run.mode}"]
    nt = False
    for suf, recs in run.files.items():
        for k, rec in enumerate(recs, 1):
            where = f"mode {run.mode} file {suf} line {k}"
            req(rec.get("XmapEntryID") == str(k), "entry-id-not-sequential", f"{where}: XmapEntryID {rec.get('XmapEntryID')!r}, expected {k}")
            skipped = check_record(rec, run, suf, where)
            if skipped:
                cl.append(skipped)
                continue
            cl.append("record")
            if rec["Orientation"] == "-":
                nt = True
                cl.append("reverse-record")
            if rec.get("AlignedRest") == "True":
                nt = True
                cl.append("second-pass-record")
                if rec["Orientation"] == "-":
                    cl.append("second-pass-reverse")
            if run.queries[int(rec["QryContigID"])]["first"] != 0:
                nt = True
                cl.append("offset-query")
    return {"nontrivial": nt, "classes": sorted(set(cl))}


def strategy():
    return gen_maps.pipeline_case(kinds=KINDS, weight_default=4, flank_repeat=1)


def check_many_records(case):
    """XmapEntryID counts 1,2,3,... also in a file of a thousand records and more (the writer driven directly with rows of
    a unit-level alignment repeated; the end-to-end runs write a dozen records at most)"""
    import argparse
    import io
    from src.alignment.alignment_results import AlignmentResults
    from src.parsers.xmap_reader import XmapReader
    from vlib import gen_unit, xmap_text
    from vlib.core import sut
    ref, qry = gen_unit.build_maps(case)
    aligner = gen_unit.build_aligner(case["params"])
    peaks = gen_unit.build_peaks(case)
    rows = [r for r in (sut(aligner.align, ref, qry, sub, case["rev"]) for sub in (peaks, peaks[:1])) if r.alignedPairs]
    if not rows:
        return {"nontrivial": False, "classes": ["no-row"]}
    rows = [rows[i % len(rows)] for i in range(case["tile"])]
    buf = io.StringIO()
    sut(XmapReader().writeAlignments, buf, AlignmentResults("ref.cmap", "qry.cmap", rows), argparse.Namespace(referenceFile="ref.cmap", queryFile="qry.cmap"))
    recs = xmap_text.parse(buf.getvalue())["records"]
    req(len(recs) == len(rows), "record-count", f"{len(rows)} rows written as {len(recs)} records")
    bad = next((i for i, r in enumerate(recs, 1) if r["XmapEntryID"] != str(i)), None)
    req(bad is None, "entry-id-not-consecutive", f"record {bad} of {len(recs)} carries XmapEntryID {recs[bad - 1]['XmapEntryID'] if bad else None}")
    for r, row in zip(recs, rows):
        req(r["pairs"] == [(p.reference.siteId, p.query.siteId) for p in row.alignedPairs], "record-pairs-of-another-row",
            f"record {r['XmapEntryID']} lists the pairs of another row")
    return {"nontrivial": True, "classes": [f"records>={1000 if len(recs) >= 1000 else 0}"]}


@st.composite
def many_records_strategy(draw):
    from vlib import gen_unit
    c = draw(gen_unit.aligner_case(1, 3))
    c["tile"] = draw(st.sampled_from([999, 1000, 1001, 1024, 2001, 2300, 4097]))
    return c


def subchecks(tier):
    q = tier == "quick"
    return [Sub("records", "hyp", check, strategy=strategy, examples=1400 if q else 30000, shrink_budget=150,
                describe="every record of every file vs harness maps", sample_filter=gen_maps.short_case,
                required_classes=("second-pass-reverse", "offset-query", "reverse-record")),
            Sub("many-records", "hyp", check_many_records, strategy=many_records_strategy, examples=48 if q else 800, shrink_budget=6,
                describe="999-4097 records written by XmapReader.writeAlignments: XmapEntryID 1,2,3,..."),
            Sub("huge-reference", "hyp", check, strategy=lambda: scale.huge_reference_case(straddle=False), examples=1 if q else 16, shrink_budget=0, skip_first=True,
                shards=1 if q else 16, sample_filter=scale.short, time_budget_s=3000,
                describe="a reference of 33 000-36 000 labels (label numbers above 32 767), molecules below, across and above that number")]
