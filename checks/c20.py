"""C20 - indel calls are self-consistent and clustering conserves every call.

Targets: sv/write_indel_files.cluster_indels, write_indel_file (through a temp file), and the two
look_for_indels_in_breakage finders.  Oracle: conservation laws + recomputation from harness maps.
"""
from __future__ import annotations

import collections
import copy
import os
import tempfile

from hypothesis import strategies as st

from vlib.core import fuzz_variant, Sub, req, sut

PROPERTY = "C20"
RULE = ("lists of 0-12 calls of one type on chromosomes 1-3 with reference intervals placed so that consecutive calls fall within / "
        "just outside the 30 kb blur both inside a chromosome and across chromosome boundaries, sorted by (chromosome, reference stop) "
        "as write_indel_file sorts them; the two-type dictionary through write_indel_file to a temp file parsed back; generated "
        "maps/alignments/breakpoints fed to both look_for_indels_in_breakage finders.  non-trivial = list with >=2 chromosomes and "
        ">=1 merge, or a finder case producing >=1 call; distinct = distinct case")
ASSUMPTIONS = ["which gaps are called (size thresholds) is not asserted, only that every call made is self-consistent",
               "cluster members are identified by query id (unique in the cluster sub-check; multiset-only when ids repeat)"]


def sort_key(line):
    return (line[1], line[3])


def check_clusters(clusters, calls, where, unique_ids):
    """clusters: lists [type, chrom, start, stop, 'id,id', qs, qe, length, count]"""
    req(sum(int(c[8]) for c in clusters) == len(calls), "count-not-conserved",
        f"{where}: Count values sum to {sum(int(c[8]) for c in clusters)} for {len(calls)} input calls")
    got = collections.Counter(x for c in clusters for x in str(c[4]).split(","))
    exp = collections.Counter(str(l[4]) for l in calls)
    req(got == exp, "query-id-lost-or-invented", f"{where}: query ids in clusters {dict(got)} vs input {dict(exp)}")
    if unique_ids:
        byid = {str(l[4]): l for l in calls}
        for c in clusters:
            members = [byid[x] for x in str(c[4]).split(",")]
            req(int(c[8]) == len(members), "count-vs-members", f"{where}: cluster Count {c[8]} but {len(members)} member ids")
            for m in members:
                req(str(m[0]) == str(c[0]) and str(m[1]) == str(c[1]), "cluster-mixes-type-or-chromosome",
                    f"{where}: cluster {c[0]}/{c[1]} contains call {m[0]}/{m[1]} of query {m[4]}")
                req(float(c[2]) <= m[2] + 1e-9 and float(c[3]) >= m[3] - 1e-9, "cluster-interval-does-not-cover-member",
                    f"{where}: cluster interval [{c[2]},{c[3]}] does not cover member [{m[2]},{m[3]}] of query {m[4]}")


def check_cluster(case):
    from write_indel_files import cluster_indels
    calls = sorted(case["calls"], key=sort_key)
    inp = copy.deepcopy(calls)
    out = sut(cluster_indels, inp)
    req(all(len(c) == 9 for c in out), "cluster-shape", "a cluster line does not have 9 fields")
    check_clusters(out, calls, "cluster_indels", case["unique"])
    chroms = {c[1] for c in calls}
    merges = len(calls) - len(out)
    return {"nontrivial": len(chroms) >= 2 and merges >= 1,
            "classes": [f"chromosomes={len(chroms)}", f"merges={min(max(merges, 0), 3)}", "unique-ids" if case["unique"] else "repeated-ids"]}


def check_write(case):
    from write_indel_files import write_indel_file
    d = tempfile.mkdtemp(prefix="coma_c20_")
    try:
        path = os.path.join(d, "indels.txt")
        ins = [l for l in case["calls"] if l[0] == "insertion"]
        dele = [l for l in case["calls"] if l[0] == "deletion"]
        sut(write_indel_file, {"insertion": copy.deepcopy(ins), "deletion": copy.deepcopy(dele)}, "aligned.xmap", path)
        with open(path) as f:
            lines = [l.rstrip("\n") for l in f if not l.startswith("#")]
    finally:
        import shutil
        shutil.rmtree(d, ignore_errors=True)
    clusters = []
    for l in lines:
        p = l.split("\t")
        req(len(p) == 9, "written-line-shape", f"written line has {len(p)} fields: {l[:80]}")
        clusters.append([p[0], int(p[1]), float(p[2]), float(p[3]), p[4], p[5], p[6], float(p[7]), int(p[8])])
    for typ, sub in (("insertion", ins), ("deletion", dele)):
        check_clusters([c for c in clusters if c[0] == typ], sub, f"write_indel_file ({typ})", case["unique"])
    return {"nontrivial": len({c[1] for c in case["calls"]}) >= 2 and len(clusters) < len(case["calls"]),
            "classes": [f"types={len({c[0] for c in case['calls']})}"]}


@st.composite
def calls_strategy(draw, types=("deletion",)):
    n = draw(st.integers(0, 12))
    unique = draw(st.sampled_from([True, True, True, False]))
    calls = []
    pos = {1: draw(st.integers(0, 200000)) + draw(st.sampled_from([0, 0, 0, 2 ** 24 + 1, 152_600_007, 2 ** 31 + 11])), 2: 0, 3: 0}
    base = pos[1]
    pos[2] = base + draw(st.sampled_from([0, 10000, 29000, 31000, 200000]))
    pos[3] = base + draw(st.sampled_from([0, 15000, 45000]))
    for k in range(n):
        ch = draw(st.sampled_from([1, 1, 2, 3]))
        typ = draw(st.sampled_from(list(types)))
        start = pos[ch] + draw(st.sampled_from([0, 5000, 29000, 30000, 30001, 60000, 90000])) + draw(st.integers(0, 3000))
        width = draw(st.integers(2001, 50000))
        stop = start + width
        pos[ch] = draw(st.sampled_from([start, stop]))
        length = draw(st.integers(2001, 99999)) * (-1 if typ == "insertion" else 1)
        qid = (k + 1) if unique else draw(st.integers(1, 4))
        calls.append([typ, ch, float(start), float(stop), qid, float(draw(st.integers(0, 10 ** 5))), float(draw(st.integers(0, 10 ** 5))), float(length)])
    return {"calls": calls, "unique": unique}


# ---- finders ---------------------------------------------------------------------------------------

def build_finder_inputs(case):
    from src.correlation.bionano_alignment import BionanoAlignment
    from src.correlation.optical_map import OpticalMap
    from src.diagnostic.benchmark_alignment import BenchmarkAlignedPair, BenchmarkAlignmentPosition
    r_dict = {r["id"]: OpticalMap(r["id"], int(r["labels"][-1]) + 1, list(r["labels"])) for r in case["refs"]}
    q_dict = {q["id"]: OpticalMap(q["id"], int(q["labels"][-1]) + 1, list(q["labels"])) for q in case["queries"]}
    al_dict = collections.defaultdict(list)
    als = {}
    for n_, a in enumerate(case["alignments"]):
        pairs = [BenchmarkAlignedPair(BenchmarkAlignmentPosition(r, 0), BenchmarkAlignmentPosition(q, 0)) for r, q in a["pairs"]]
        al = BionanoAlignment(n_ + 1, a["q"], a["r"], 0, 0, 0, 0, bool(a.get("rev")), 1.0, "", 10, 10, pairs)
        al_dict[a["r"]].append(al)
        als[a["q"]] = al
    return r_dict, q_dict, al_dict, als


def check_calls(indels, case, where, flank):
    """flank(q_id) -> list of ((r_s_label, q_s_label), (r_e_label, q_e_label)) admissible flanking label pairs"""
    refs = {r["id"]: r["labels"] for r in case["refs"]}
    qrys = {q["id"]: q["labels"] for q in case["queries"]}
    req(set(indels) == {"insertion", "deletion"}, "finder-dict-shape", f"{where}: keys {sorted(indels)}")
    n = 0
    for typ, lst in indels.items():
        for c in lst:
            n += 1
            req(len(c) == 8, "call-shape", f"{where}: call has {len(c)} fields")
            t, rid, rs, re_, qid, qs, qe, length = c
            req(t == typ, "call-type-field", f"{where}: call of type {t} filed under {typ}")
            exp = abs(rs - re_) - abs(qs - qe)
            req(abs(length - exp) <= 1e-6, "call-length-inconsistent", f"{where}: Length {length}, |ref gap| - |query gap| = {exp}")
            req((t == "insertion") == (length < 0), "call-type-vs-sign", f"{where}: type {t} with Length {length}")
            ok = False
            for (a, b), (c2, d) in flank(qid):
                if refs[rid][a - 1] == rs and qrys[qid][b - 1] == qs and refs[rid][c2 - 1] == re_ and qrys[qid][d - 1] == qe:
                    ok = True
            req(ok, "call-labels-not-flanking", f"{where}: call of query {qid} uses coordinates ({rs},{qs})-({re_},{qe}) that are not the flanking aligned labels")
    return n


def check_finders(case):
    import molecule_indels
    import segment_indels
    from src.diagnostic.benchmark_alignment import BenchmarkAlignedPair, BenchmarkAlignmentPosition
    r_dict, q_dict, al_dict, als = build_finder_inputs(case)
    # molecule finder: breakage_dict[q] = [index, pair]
    bd = {}
    for a in case["alignments"]:
        i = a["break"][0]
        r, q = a.get("break_pair") or a["pairs"][i]
        bd[a["q"]] = [i, BenchmarkAlignedPair(BenchmarkAlignmentPosition(r, 0), BenchmarkAlignmentPosition(q, 0))]
    by_q = {a["q"]: a for a in case["alignments"]}
    out1 = sut(molecule_indels.look_for_indels_in_breakage, al_dict, r_dict, q_dict, bd)
    n1 = check_calls(out1, case, "molecule_indels",
                     lambda qid: [(tuple(by_q[qid].get("break_pair") or by_q[qid]["pairs"][by_q[qid]["break"][0]]), tuple(by_q[qid]["pairs"][by_q[qid]["break"][0] + 1]))])
    # segment finder: breakage_dict[q] = [[index, 'pair string'], ...]
    bd2 = {a["q"]: [[i, str(tuple(a["pairs"][i]))] for i in a["break"]] for a in case["alignments"] if a["q"] % 5 != 0}
    out2 = sut(segment_indels.look_for_indels_in_breakage, al_dict, r_dict, q_dict, bd2)
    n2 = check_calls(out2, case, "segment_indels",
                     lambda qid: [(tuple(by_q[qid]["pairs"][i]), tuple(by_q[qid]["pairs"][i + 1])) for i in by_q[qid]["break"] if i + 1 < len(by_q[qid]["pairs"])])
    return {"nontrivial": n1 + n2 >= 1, "classes": [f"calls={min(n1 + n2, 3)}", "reverse-alignment" if any(a.get("rev") for a in case["alignments"]) else "forward-only",
                                                    "insertion" if out1["insertion"] or out2["insertion"] else "no-insertion",
                                                    "deletion" if out1["deletion"] or out2["deletion"] else "no-deletion"]}


@st.composite
def finder_strategy(draw):
    nr = draw(st.integers(1, 2))
    refs = []
    for i in range(nr):
        n = draw(st.integers(8, 30))
        gaps = draw(st.lists(st.integers(500, 30000), min_size=n - 1, max_size=n - 1))
        lab = [float(draw(st.integers(0, 5000)))]
        for g in gaps:
            lab.append(lab[-1] + g)
        refs.append({"id": i + 1, "labels": lab})
    nq = draw(st.integers(1, 4))
    queries, alignments = [], []
    for k in range(nq):
        ref = refs[draw(st.integers(0, nr - 1))]
        n = len(ref["labels"])
        m = draw(st.integers(4, min(12, n)))
        i0 = draw(st.integers(0, n - m))
        rl = ref["labels"][i0:i0 + m]
        ql = [0.0]
        for a, b in zip(rl, rl[1:]):
            d = b - a
            ql.append(ql[-1] + max(50.0, d + draw(st.sampled_from([0, 0, 50, -50, 150, -150, 2500, -2500, 30000, -30000, 120000]))))
        qid = k + 1
        queries.append({"id": qid, "labels": ql})
        rev = draw(st.booleans())
        # reverse strand: query label numbers descend along the alignment
        pairs = [[i0 + j + 1, (m - j) if rev else (j + 1)] for j in range(m)]
        if rev:
            ql = [ql[-1] - x for x in ql[::-1]]
        drop = set(draw(st.lists(st.integers(1, m - 2), max_size=2)))
        pairs = [p for j, p in enumerate(pairs) if j not in drop]
        nb = draw(st.integers(1, 2))
        br = sorted(set(draw(st.lists(st.integers(0, len(pairs) - 2), min_size=nb, max_size=nb))))
        a = {"q": qid, "r": ref["id"], "pairs": pairs, "break": br, "rev": rev}
        if draw(st.integers(0, 3)) == 0:
            j = br[0]
            a["break_pair"] = [pairs[j][0], min(m, max(1, pairs[j][1] + (1 if rev else -1)))]
        alignments.append(a)
    return {"refs": refs, "queries": queries, "alignments": alignments}


def subchecks(tier):
    q = tier == "quick"
    subs = [
        Sub("cluster", "hyp", check_cluster, strategy=lambda: calls_strategy(), examples=40000 if q else 1000000, shrink_budget=1000,
            required_classes=("chromosomes=2", "merges=1", "repeated-ids")),
        Sub("write-file", "hyp", check_write, strategy=lambda: calls_strategy(types=("insertion", "deletion")), examples=4000 if q else 100000,
            shrink_budget=500),
        Sub("finders", "hyp", check_finders, strategy=finder_strategy, examples=8000 if q else 200000, shrink_budget=500,
            required_classes=("insertion", "deletion", "reverse-alignment")),
    ]
    if not q:
        subs.append(fuzz_variant(next(s for s in subs if s.name == "cluster"), 60000, include=('write_indel_files',)))
    if not q:
        subs.append(fuzz_variant(next(s for s in subs if s.name == "finders"), 30000, include=('molecule_indels', 'segment_indels')))
    return subs
