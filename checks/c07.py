"""C07 - well-formed input never aborts the run; unalignable queries just yield no record.

Crash/format oracle with bucketing by (exception type, innermost repository frame); the project's own
XmapReader must read back every written file (also zero-record ones); removing a query without a record
leaves the other records unchanged; a sample goes through the real CLI.
"""
from __future__ import annotations

import io
import os

from hypothesis import strategies as st

from vlib import gen_maps, pipeline, scale, xmap_text
from vlib.core import Sub, Violation, crash_signature, req

PROPERTY = "C07"
RULE = ("degenerate-heavy CMAP sets (one/two-label molecules, duplicate positions, dense runs at 1-100 bp, queries longer than every "
        "reference, one-label references, queries equal to a reference, label-less molecules) mixed with normal molecules x 4 modes x "
        "parameters over the help-allowed space (-md >= -r1); in-process for volume, CLI for a sample.  non-trivial = case with >=1 "
        "query without a record or a zero-record file; distinct = distinct case")
ASSUMPTIONS = ["documented validation errors are outside the domain and not generated (-su > 0, -ms <= 0, -md < -r1, resolution < 1, blur < 0)",
               "crash signature = exception type + innermost repository frame (file:function)"]

WIDE = {
    "-sp": [1, 500, 2000], "-dp": [0.0, 0.5, 2.0], "-su": [0, -100, -1000], "-d": [0, 1, 300, 3000, 20000],
    "-ms": [1, 500, 5000], "-bs": [0, 1, 600, 5000], "-p": [1, 2, 5, 10], "-diff": [0, 1000, 10 ** 7],
    "-sj": [0.0, 0.5, 2.0], "-ss": [1], "-pt": [0.0, 1.0, 5.0, 60.0], "-ma": [100, 500, 2000, 8000, 60000],
    "-r1": [200, 700, 2800, 10000], "-b1": [0, 2, 5], "-md": [1400, 5000, 60000], "-r2": [20, 50, 200, 1000], "-b2": [0, 1, 8],
}
KINDS = ["degenerate", "degenerate", "short", "exact", "exact", "noisy", "noisy", "stretched", "chimeric", "partial", "partial", "unrelated", "indel", "repeat"]


@st.composite
def wide_args(draw):
    out = {}
    for k, vals in WIDE.items():
        v = draw(st.sampled_from([None] * 6 + vals))
        if v is not None:
            out[k] = v
    if out.get("-md", 20000) < out.get("-r1", 1400):
        out["-md"] = out.get("-r1", 1400)
    return out


@st.composite
def strategy(draw, max_queries=6):
    case = draw(gen_maps.pipeline_case(kinds=KINDS, max_queries=max_queries,
                                       ref_sizes=("one", "tiny", "small", "small", "medium", "medium", "large"), options=[]))
    case["args"] = draw(wide_args())
    special = draw(st.sampled_from([None, None, "query-equals-reference", "label-less-molecule", "all-unalignable"]))
    if special == "query-equals-reference":
        r = case["refs"][0]
        case["queries"].append({"id": 100000 + r["id"], "length": r["length"], "labels": list(r["labels"]), "truth": {"kind": "equals-reference"}})
    elif special == "label-less-molecule":
        case["queries"].append({"id": 200001, "length": 5000.0, "labels": [], "truth": {"kind": "label-less"}})
    elif special == "all-unalignable":
        top = max(r["length"] for r in case["refs"])
        case["queries"] = [{"id": 7 + k, "length": top + 5000.0 * (k + 1), "labels": [0.0, top + 4000.0 * (k + 1)],
                            "truth": {"kind": "degenerate", "sub": "toolong"}} for k in range(draw(st.integers(1, 2)))]
    return case


def read_back(run, program, where):
    """the project's own XMAP reader on every written file"""
    from src.parsers.xmap_alignment_pair_parser import XmapAlignmentPairWithDistanceParser
    from src.parsers.xmap_reader import XmapReader
    for suf, text in run.raw.items():
        reader = XmapReader(XmapAlignmentPairWithDistanceParser(program.referenceMaps, program.queryMaps))
        try:
            als = reader.readAlignments(io.StringIO(text))
        except Exception as e:  # noqa: BLE001
            raise Violation("reader-" + crash_signature(e),
                            f"{where}: XmapReader.readAlignments fails on the written {suf} file with {len(run.files.get(suf, []))} records: {type(e).__name__}: {e}"[:400])
        req(len(als) == len(run.files.get(suf, [])), "reader-record-count",
            f"{where}: reader returns {len(als)} alignments for {len(run.files.get(suf, []))} records in file {suf}")


def check_wellformed(run, where):
    req(set(run.raw) == pipeline.EXPECTED_FILES[run.mode], "mode-file-set",
        f"{where}: files written {sorted(run.raw)}, mode {run.mode} should write {sorted(pipeline.EXPECTED_FILES[run.mode])}")
    req(run.format_error is None, "xmap-malformed", f"{where}: {run.format_error}")
    for suf, p in run.parsed.items():
        req("Alignment" in p["columns"] and "QryContigID" in p["columns"], "xmap-header-columns", f"{where}: file {suf} header lacks required columns")


def check(case, cli=False):
    where = f"mode {case.get('mode')} args {case.get('args')}"
    run = pipeline.run_case(case)
    if run.crashed:
        raise Violation(run.crash_signature, f"{where}: run aborted: {run.crash_text.splitlines()[0]}", run.crash_text)
    check_wellformed(run, where)
    read_back(run, run.program, where)
    cl = [f"mode={run.mode}"]
    have = {r["QryContigID"] for recs in run.files.values() for r in recs}
    labelled = [q for q in case["queries"] if q["labels"]]
    none = [q for q in labelled if str(q["id"]) not in have]
    zero = [s for s, recs in run.files.items() if not recs]
    if zero:
        cl.append("zero-record-file")
    if none:
        cl.append("query-without-record")
    # removing queries without a record must not change anything
    if none and len(none) < len(labelled):
        c2 = dict(case, queries=[q for q in case["queries"] if q not in none])
        r2 = pipeline.run_case(c2, record=False)
        if r2.crashed:
            raise Violation(r2.crash_signature, f"{where}: run aborted after removing the unalignable queries: {r2.crash_text.splitlines()[0]}", r2.crash_text)
        for suf in run.raw:
            a = [r["line"] for r in run.files.get(suf, [])]
            b = [r["line"] for r in r2.files.get(suf, [])]
            req(a == b, "unalignable-query-affects-others",
                f"{where}: records of file {suf} change when the queries without a record {[q['id'] for q in none]} are removed")
        cl.append("removal-checked")
    if cli:
        # a third of the CLI runs receive the query CMAP on a pipe (a stream that cannot be rewound)
        piped = (len(case["queries"]) + len(case["refs"][0]["labels"])) % 3 == 0
        c = pipeline.run_cli(dict(case, stdin_query=True) if piped else case, cpus=case.get("cpus", 2))
        if piped:
            cl.append("query-on-a-pipe")
        req(not c.crashed, c.crash_signature or "cli-crash", f"{where}: CLI exit {c.returncode}: {c.crash_text}")
        check_wellformed(c, where + " (CLI)")
        for suf in run.raw:
            req(xmap_text.strip_volatile(c.raw[suf]) == xmap_text.strip_volatile(run.raw[suf]), "cli-inprocess-output-differs",
                f"{where}: file {suf} differs between CLI and in-process run")
        cl.append("cli")
    return {"nontrivial": bool(zero or none), "classes": cl}


def subchecks(tier):
    q = tier == "quick"
    return [
        Sub("inprocess", "hyp", check, strategy=strategy, examples=1600 if q else 40000, shrink_budget=100,
            sample_filter=gen_maps.short_case, required_classes=("zero-record-file", "query-without-record", "removal-checked")),
        Sub("cli", "hyp", lambda c: check(c, cli=True), strategy=lambda: strategy(max_queries=3), examples=48 if q else 600,
            shrink_budget=8, sample_filter=gen_maps.short_case),
        Sub("huge-reference", "hyp", check, strategy=scale.huge_reference_case, examples=2 if q else 32, shrink_budget=0, skip_first=True,
            shards=2 if q else 16, sample_filter=scale.short, time_budget_s=3000,
            describe="a reference of 33 000-36 000 labels, molecules below, across and above label 32 767"),
    ]
