"""C12 - pairing along a seed diagonal partitions labels and pairs nearest neighbours.

Target: AlignerEngine.align(reference, query, start, end, isReverse).
Oracle: independent model of window, partition, order, offsets, monotonicity, mutual-nearest.
"""
from __future__ import annotations

import itertools

from hypothesis import strategies as st

from vlib.core import fuzz_variant, Sub, req, sut

PROPERTY = "C12"
RULE = ("exhaustive: all reference multisets (<=3/4 labels on 0..6/0..8), query multisets (<=2/3 labels), maxDistance 0..2, "
        "seed offsets, both strands, label-number shifts 0/3; Hypothesis: 0-40 reference / 1-30 query labels, integer and "
        "one-decimal coordinates, coincident labels, labels planted exactly at maxDistance and at the window edges.  "
        "non-trivial = case has an equidistant tie, a coincident label, or a label exactly at maxDistance / window edge; "
        "distinct = distinct case")
ASSUMPTIONS = ["label lists are sorted ascending (the CMAP reader sorts them)",
               "for one-decimal coordinates, clauses are skipped inside a 1e-6 band around an inclusive boundary or a tie",
               "which of two equidistant partners is chosen is not constrained"]

EPS = 1e-6


def model_query(case):
    """strand-specific (siteId, coordinate) of every query label, in ascending coordinate order"""
    pos, L, sh = case["q"], case["qlen"], case["shift"]
    if case["rev"]:
        n = len(pos)
        return [(n + sh - k, (L - 1) - p) for k, p in enumerate(pos[::-1])]
    return [(1 + sh + k, p) for k, p in enumerate(pos)]


def check(case, eng=None):
    from src.alignment.aligner import AlignerEngine
    from src.alignment.alignment_position import (AlignedPair, NotAlignedQueryPosition,
                                                  NotAlignedReferencePosition)
    from src.correlation.optical_map import OpticalMap
    D, start, end = case["maxd"], case["start"], case["end"]
    fl = case.get("float", False)
    tol = EPS if fl else 0
    ref = OpticalMap(7, int(case["r"][-1]) + 10 if case["r"] else 10, list(case["r"]))
    qry = OpticalMap(9, case["qlen"], list(case["q"]), shift=case["shift"])
    if eng is None:
        eng = AlignerEngine(D)
    out = sut(eng.align, ref, qry, start, end, case["rev"])
    rlab = [(i + 1, p) for i, p in enumerate(case["r"])]
    window_sure = [(s, p) for s, p in rlab if start - D + tol <= p <= end + D - tol]
    window_maybe = [(s, p) for s, p in rlab if start - D - tol <= p <= end + D + tol]
    qlab = model_query(case)
    rpos = dict(rlab)
    qpos = dict(qlab)
    req(len(qpos) == len(qlab), "harness", "duplicate query site ids in model")

    seen_r, seen_q = [], []
    pairs = []
    coords = []
    for o in out:
        if isinstance(o, AlignedPair):
            r, q = o.reference.siteId, o.query.siteId
            req(r in rpos and q in qpos, "pair-unknown-label", f"pair ({r},{q}) names a label that does not exist")
            req(o.reference.position == rpos[r] and abs(o.query.position - qpos[q]) <= 1e-9, "pair-wrong-coordinate",
                f"pair ({r},{q}) carries coordinates {o.reference.position},{o.query.position}, expected {rpos[r]},{qpos[q]}")
            seen_r.append(r)
            seen_q.append(q)
            off = qpos[q] - (rpos[r] - start)
            req(abs(o.queryShift - off) <= 1e-9 * max(1, abs(off)) + (1e-9 if fl else 0), "offset-wrong",
                f"pair ({r},{q}) stored offset {o.queryShift}, expected {off}")
            req(abs(off) <= D + tol, "pair-beyond-maxdistance", f"pair ({r},{q}) offset {off} > maxDistance {D}")
            pairs.append((r, q, off))
            coords.append(rpos[r])
        elif isinstance(o, NotAlignedReferencePosition):
            r = o.reference.siteId
            req(r in rpos, "unpaired-unknown-label", f"unpaired reference label {r} does not exist")
            seen_r.append(r)
            coords.append(rpos[r])
        elif isinstance(o, NotAlignedQueryPosition):
            q = o.query.siteId
            req(q in qpos, "unpaired-unknown-label", f"unpaired query label {q} does not exist")
            seen_q.append(q)
            coords.append(qpos[q] + start)
        else:
            req(False, "unknown-position-type", f"{type(o).__name__}")
    req(len(set(seen_r)) == len(seen_r), "reference-label-twice", f"a reference label occurs twice: {sorted(seen_r)}")
    req(len(set(seen_q)) == len(seen_q), "query-label-twice", f"a query label occurs twice: {sorted(seen_q)}")
    sr = set(seen_r)
    req({s for s, _ in window_sure} <= sr, "window-label-missing",
        f"reference labels of the window missing from the output: {sorted({s for s, _ in window_sure} - sr)}")
    req(sr <= {s for s, _ in window_maybe}, "label-outside-window",
        f"reference labels outside the window reported: {sorted(sr - {s for s, _ in window_maybe})}")
    req(set(seen_q) == set(qpos), "query-label-missing", f"query labels missing: {sorted(set(qpos) - set(seen_q))}")
    req(all(a <= b + 1e-9 for a, b in zip(coords, coords[1:])), "not-ascending", f"positions not in ascending order: {coords}")
    # order preservation
    ps = sorted(pairs)
    for (r1, q1, _), (r2, q2, _) in zip(ps, ps[1:]):
        req(rpos[r1] <= rpos[r2], "harness", "reference site ids not monotone in coordinate")
        if case["rev"]:
            req(q2 < q1, "pairs-not-order-preserving", f"reverse strand: pairs ({r1},{q1}),({r2},{q2}) do not descend on the query")
        else:
            req(q2 > q1, "pairs-not-order-preserving", f"pairs ({r1},{q1}),({r2},{q2}) do not ascend on the query")
        req(qpos[q1] <= qpos[q2] + 1e-9, "pairs-cross-in-coordinates", f"pairs ({r1},{q1}),({r2},{q2}) cross")
    # mutual strict nearest partners within maxDistance must be paired
    paired = {(r, q) for r, q, _ in pairs}
    win = window_sure
    ties = coincident = atmax = 0
    if len(set(case["r"])) < len(case["r"]) or len(set(case["q"])) < len(case["q"]):
        coincident = 1
    for s, p in rlab:
        if abs(p - (start - D)) <= tol or abs(p - (end + D)) <= tol:
            atmax = 1
    dist = {(s, t): abs(qp - (p - start)) for s, p in window_maybe for t, qp in qlab}
    for (s, t), d in dist.items():
        if abs(d - D) <= tol:
            atmax = 1
    for s, p in win:
        for t, qp in qlab:
            d = dist[(s, t)]
            if d > D - tol:
                continue
            o_r = [dist[(s2, t)] for s2, _ in window_maybe if s2 != s]
            o_q = [dist[(s, t2)] for t2, _ in qlab if t2 != t]
            if any(abs(x - d) <= tol for x in o_r + o_q):
                ties = 1
            if all(x > d + tol for x in o_r) and all(x > d + tol for x in o_q):
                req((s, t) in paired, "mutual-nearest-not-paired",
                    f"reference {s} and query {t} are strictly each other's nearest (distance {d} <= {D}) but not paired")
    cl = ["rev" if case["rev"] else "fwd", "shift" if case["shift"] else "noshift", f"pairs={min(len(pairs), 3)}"]
    if ties:
        cl.append("tie")
    if coincident:
        cl.append("coincident")
    if atmax:
        cl.append("at-boundary")
    if not win:
        cl.append("empty-window")
    return {"nontrivial": bool(ties or coincident or atmax), "classes": cl}


@st.composite
def huge_reference_case(draw):
    """a reference with more labels than a 16-bit label number holds; the query is placed beyond label 32767"""
    n = draw(st.sampled_from([33000, 40000, 66000]))
    g = draw(st.integers(400, 3000))
    jit = draw(st.integers(1, g))
    r = [1000 + i * g + (i * i * 7) % jit for i in range(n)]
    i0 = draw(st.sampled_from([32760, 32767, 32768, n - 40, 20]))
    k = draw(st.integers(3, 12))
    D = draw(st.sampled_from([200, 1500]))
    q = [r[i0 + j] - r[i0] + draw(st.integers(-D // 2, D // 2)) for j in range(k)]
    q = sorted(set(max(0, x) for x in q))
    start = r[i0]
    return {"r": r, "q": q, "qlen": q[-1] + 1, "shift": draw(st.sampled_from([0, 3])), "rev": draw(st.booleans()), "maxd": D,
            "start": start, "end": start + q[-1] + 1}


@st.composite
def long_query_case(draw):
    """a contig-sized query: the search window along the seed diagonal holds more than 1024 / 2048 / 4096 reference labels
    (block and chunk sizes of a vectorised or batched pairing are of this order)"""
    k = draw(st.sampled_from([1030, 1300, 2060, 2500, 4100]))
    n = k + draw(st.integers(10, 400))
    g = draw(st.integers(400, 3000))
    jit = draw(st.integers(1, g))
    r = [1000 + i * g + (i * i * 7) % jit for i in range(n)]
    i0 = draw(st.integers(0, n - k))
    D = draw(st.sampled_from([200, 1500]))
    a, b = draw(st.integers(1, 50)), draw(st.integers(0, 50))
    q = sorted(set(max(0, r[i0 + j] - r[i0] + ((a * j + b) * 37) % (D + 1) - D // 2) for j in range(k) if (a * j + b) % 17))
    start = r[i0]
    return {"r": r, "q": q, "qlen": q[-1] + 1, "shift": draw(st.sampled_from([0, 3])), "rev": draw(st.booleans()), "maxd": D,
            "start": start, "end": start + q[-1] + 1}


def check_history(case):
    """one AlignerEngine used for a sequence of calls, as one worker uses it for a whole molecule and then for the
    fragments of that molecule (same molecule id and length, fewer labels, label-number offset), on either strand and
    at other seed offsets: every call must satisfy the oracle on its own arguments"""
    from src.alignment.aligner import AlignerEngine
    eng = AlignerEngine(case["maxd"])
    info = None
    cl = set()
    for c in case["calls"]:
        info = check(dict(c, maxd=case["maxd"]), eng)
        cl.update(info["classes"])
    kinds = [c.get("kind", "base") for c in case["calls"]]
    return {"nontrivial": "fragment" in kinds, "classes": sorted(cl | {"calls=%d" % len(kinds)} | {"then-" + k for k in kinds[1:]})}


@st.composite
def history_case(draw):
    base = draw(random_case())
    calls = [dict(base, kind="base")]
    for _ in range(draw(st.integers(1, 3))):
        kind = draw(st.sampled_from(["fragment", "fragment", "strand", "start", "whole", "other-maps"]))
        prev = calls[-1]
        c = dict(prev, kind=kind)
        if kind == "fragment":
            n = len(base["q"])
            # a head or a tail of the molecule, as AlignmentResultRow.getUnalignedFragments builds them
            cut = draw(st.integers(0, n - 1))
            a, b = (0, cut) if draw(st.booleans()) else (cut, n - 1)
            c.update(q=base["q"][a:b + 1], shift=base["shift"] + a)
            if draw(st.booleans()):
                c["rev"] = base["rev"]
        elif kind == "strand":
            c["rev"] = not prev["rev"]
        elif kind == "start":
            d = draw(st.integers(-3, 3)) * max(1, base["maxd"])
            c.update(start=prev["start"] + d, end=prev["end"] + d)
        elif kind == "other-maps":
            # another reference / query pair carrying the same molecule ids (the statement is per call: the labels returned
            # must be those of the maps passed in this call)
            o = draw(random_case())
            c = dict(o, kind=kind)
        else:
            c.update(q=base["q"], shift=base["shift"])
        calls.append(c)
    return {"maxd": base["maxd"], "calls": calls}


def enum_lattice(rmax, rn, qmax, qn):
    def gen(shard, nshards):
        k = 0
        refs = [list(c) for n in range(0, rn + 1) for c in itertools.combinations_with_replacement(range(rmax + 1), n)]
        qs = [list(c) for n in range(1, qn + 1) for c in itertools.combinations_with_replacement(range(qmax + 1), n)]
        for r in refs:
            for q in qs:
                k += 1
                if k % nshards != shard:
                    continue
                qlen = q[-1] + 1
                for D in (0, 1, 2):
                    for start in range(-2, rmax):
                        for rev in (False, True):
                            for sh in (0, 3):
                                yield {"r": r, "q": q, "qlen": qlen, "shift": sh, "rev": rev, "maxd": D,
                                       "start": start, "end": start + qlen}
    return gen


@st.composite
def random_case(draw):
    fl = draw(st.sampled_from([False, False, True]))
    scale = draw(st.sampled_from(["tiny", "small", "real"]))
    if scale == "tiny":
        D = draw(st.integers(0, 3)); step = st.integers(0, 4); nr = draw(st.integers(0, 12)); nq = draw(st.integers(1, 8))
    elif scale == "small":
        D = draw(st.sampled_from([5, 10, 20])); step = st.integers(0, 40); nr = draw(st.integers(0, 25)); nq = draw(st.integers(1, 15))
    else:
        D = draw(st.sampled_from([200, 800, 1500, 3000, 8000])); step = st.one_of(st.integers(0, 3000), st.integers(300, 20000))
        nr = draw(st.integers(0, 40)); nq = draw(st.integers(1, 30))

    def coords(n, first):
        out, x = [], first
        for _ in range(n):
            out.append(x)
            x = x + draw(step)
            if fl:
                x = round(x + draw(st.integers(0, 9)) / 10, 1)
        return out
    q = coords(nq, 0 if draw(st.booleans()) else draw(st.integers(0, 50)))
    # fragment: query of a longer molecule
    extra = draw(st.sampled_from([0, 0, 1]))
    qlen = (q[-1] - 0) + 1 + (draw(st.integers(0, 5000)) if extra else 0)
    shift = draw(st.sampled_from([0, 0, 1, 3, 17]))
    rev = draw(st.booleans())
    start = draw(st.one_of(st.integers(-50, 200), st.integers(-20000, 200000))) if scale == "real" else draw(st.integers(-10, 60))
    end = start + qlen if draw(st.integers(0, 5)) else start + draw(st.integers(0, 2 * int(qlen) + 1))
    r = coords(nr, start + draw(st.integers(-3 * D - 5, 10)))
    # plant labels at the inclusive boundaries
    plant = draw(st.lists(st.sampled_from(["lo", "hi", "qlo", "qhi", "dup", "qlo-", "qhi+", "lo-", "hi+"]), max_size=3))
    eps = 0.1 if fl else 1          # the smallest step the coordinates have: just outside the inclusive limits
    qq = dict(q=q, qlen=qlen, shift=shift, rev=rev)
    ql = model_query(qq)
    for pl in plant:
        if pl == "lo":
            r.append(start - D)
        elif pl == "hi":
            r.append(end + D)
        elif pl in ("qlo", "qhi") and ql:
            _, qp = draw(st.sampled_from(ql))
            r.append(qp + start + (D if pl == "qhi" else -D))
        elif pl in ("qlo-", "qhi+") and ql:
            _, qp = draw(st.sampled_from(ql))
            r.append(qp + start + (D + eps if pl == "qhi+" else -D - eps))
        elif pl == "lo-":
            r.append(start - D - eps)
        elif pl == "hi+":
            r.append(end + D + eps)
        elif pl == "dup" and r:
            r.append(draw(st.sampled_from(r)))
    r = sorted(round(x, 1) if fl else x for x in r)
    if draw(st.integers(0, 7)) == 0:
        # labels far down a very long molecule (a contig of tens of Mbp, or the tail fragment of one): query coordinates
        # beyond 2^24, the reference labels moved along so that the geometry stays the same
        F = draw(st.sampled_from([2 ** 24 + 1, 2 ** 25 + 3, 30_000_001, 2 ** 27 + 9]))
        q = [round(x + F, 1) if fl else x + F for x in q]
        r = [round(x + F, 1) if fl else x + F for x in r]
        qlen = qlen + F
        end = end + F
    if draw(st.integers(0, 7)) == 0:
        # a placement far down a chromosome (beyond 2^24 / 2^27 / 2^31 bp): the same geometry, every reference coordinate and
        # the seed offset moved by one amount
        far = draw(st.sampled_from([2 ** 24 - 3, 2 ** 24 + 1, 17_000_001, 2 ** 25 + 7, 2 ** 27 + 5, 152_600_007, 2 ** 31 + 11]))
        r = [round(x + far, 1) if fl else x + far for x in r]
        start, end = start + far, end + far
    return {"r": r, "q": q, "qlen": qlen, "shift": shift, "rev": rev, "maxd": D, "start": start, "end": end, "float": fl}


def subchecks(tier):
    q = tier == "quick"
    subs = [
        Sub("lattice", "enum", check, enumerate=enum_lattice(5, 3, 4, 2) if q else enum_lattice(7, 4, 6, 3), exhaustive=True,
            describe="all small label multisets x maxDistance x seed offset x strand x shift", time_budget_s=3000),
        Sub("random", "hyp", check, strategy=random_case, examples=40000 if q else 800000, shrink_budget=1500,
            describe="integer and one-decimal coordinates with planted boundary labels",
            required_classes=("tie", "coincident", "at-boundary", "empty-window", "rev", "shift")),
    ]
    subs.append(Sub("huge-reference", "hyp", check, strategy=huge_reference_case, examples=32 if q else 600, shrink_budget=6,
                    describe="references of 33000-66000 labels, the query placed beyond label 32767"))
    subs.append(Sub("long-query", "hyp", check, strategy=long_query_case, examples=16 if q else 600, shrink_budget=6,
                    sample_filter=lambda c: dict(c, r=f"{len(c['r'])} labels from {c['r'][0]}", q=f"{len(c['q'])} labels"),
                    describe="queries of 1000-4100 labels: more than 1024 / 2048 / 4096 reference labels inside one search window"))
    subs.append(Sub("engine-history", "hyp", check_history, strategy=history_case, examples=12000 if q else 300000, shrink_budget=1500,
                    describe="one engine instance reused for a whole molecule, its fragments, the other strand and other seed offsets",
                    required_classes=("then-fragment", "then-strand")))
    if not q:
        subs.append(fuzz_variant(next(s for s in subs if s.name == "random"), 80000))
    return subs
