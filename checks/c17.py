"""C17 - CMAP reading returns every labelled molecule exactly; trimming keeps geometry.

Targets: CmapReader.readQueries / readReferences on generated CMAP text, OpticalMap.trim.
Oracle: the harness' own model of the text it wrote.
"""
from __future__ import annotations

import io

from hypothesis import strategies as st

from vlib import cmap_text
from vlib.core import fuzz_variant, Sub, req, sut

PROPERTY = "C17"
RULE = ("1-8 molecules with arbitrary distinct ids, 0-40 labels (0 => skipped), one-decimal coordinates incl. duplicates, end-marker "
        "row with channel 0, 0-2 extra columns, permuted column order, shuffled rows, permuted molecule order, id filters (subset, "
        "non-existent ids, empty => all), through both readQueries and readReferences; trim() on every map read.  non-trivial = "
        "file with shuffled rows and (a label-less molecule or an id filter); program-maps: the reference and query maps a Program built from "
        "the command line holds (two files, or the same file for both, -rId/-qId independently present); big-file: block layouts of "
        "up to ~500k rows, non-trivial = a requested molecule lies in more than one block of a file longer than 131072 rows; distinct = distinct case")
ASSUMPTIONS = ["every molecule has exactly one end-marker row (LabelChannel 0) carrying its ContigLength, as CMAP files do",
               "inter-label distances after trim compared within 1e-6"]


def check(case):
    from src.correlation.optical_map import OpticalMap
    from src.parsers.cmap_reader import CmapReader
    maps = case["maps"]
    text = cmap_text.cmap_text(maps, case.get("rows"), case.get("cols"), case.get("extra", 0))
    flt = case.get("filter")
    reader = CmapReader()
    fn = reader.readQueries if case.get("api", "q") == "q" else reader.readReferences
    got = sut(fn, io.StringIO(text), flt)
    labelled = {m["id"]: m for m in maps if m["labels"]}
    want = {i: m for i, m in labelled.items() if (not flt) or i in flt}
    ids = [int(g.moleculeId) for g in got]
    req(len(set(ids)) == len(ids), "molecule-returned-twice", f"molecule ids returned: {ids}")
    req(set(ids) == set(want), "molecule-set-wrong", f"returned ids {sorted(ids)}, expected {sorted(want)} (filter {flt}, label-less {[m['id'] for m in maps if not m['labels']]})")
    for g in got:
        m = want[int(g.moleculeId)]
        exp = sorted(float(f"{p:.1f}") for p in m["labels"])
        gp = [float(p) for p in g.positions]
        req(gp == exp, "labels-wrong", lambda: f"molecule {m['id']}: positions {gp[:8]}.., expected {exp[:8]}..")
        req(g.length == int(float(f"{m['length']:.1f}")), "length-wrong", f"molecule {m['id']}: length {g.length}, end marker says {m['length']}")
        # trim
        t = sut(g.trim)
        req(len(t.positions) == len(gp), "trim-label-count", f"molecule {m['id']}: trim changed the number of labels")
        req(t.positions[0] == 0, "trim-first-not-zero", f"molecule {m['id']}: first label after trim at {t.positions[0]}")
        for k in range(len(gp) - 1):
            req(abs((t.positions[k + 1] - t.positions[k]) - (gp[k + 1] - gp[k])) <= 1e-6, "trim-distances-changed",
                f"molecule {m['id']}: distance between labels {k + 1},{k + 2} changed by trim")
        req(abs(t.length - (gp[-1] - gp[0] + 1)) <= 1e-6, "trim-length-wrong", f"molecule {m['id']}: trimmed length {t.length}, last-first+1 = {gp[-1] - gp[0] + 1}")
        req(t.moleculeId == g.moleculeId, "trim-id-changed", "trim changed the molecule id")
        t2 = sut(t.trim)
        req(list(t2.positions) == list(t.positions) and t2.length == t.length, "trim-not-idempotent", f"molecule {m['id']}: trim(trim(x)) != trim(x)")
    e = OpticalMap(5, 100, [])
    req(sut(e.trim) == e, "trim-labelless-changed", "trim changed a label-less map")
    shuffled = case.get("rows") is not None
    nt = shuffled and (len(labelled) < len(maps) or bool(flt))
    cl = ["shuffled" if shuffled else "ordered", "filter" if flt else "no-filter"]
    if len(labelled) < len(maps):
        cl.append("label-less")
    if case.get("cols"):
        cl.append("permuted-columns")
    if flt and any(i not in labelled for i in flt):
        cl.append("ghost-id")
    return {"nontrivial": nt, "classes": cl}


def check_program(case):
    """the maps the program itself works on: Program(Args.parse(argv)) reads the reference file and the query file (possibly
    the same file: self-alignment) with the -rId / -qId filters and trims the queries"""
    import os
    import shutil
    import tempfile
    from src.args import Args
    from src.program import Program
    d = tempfile.mkdtemp(prefix="coma_c17_")
    args = None
    try:
        rp = os.path.join(d, "r.cmap")
        with open(rp, "w") as f:
            f.write(cmap_text.cmap_text(case["refs"], case.get("ref_rows")))
        if case["same_file"]:
            qp, qmaps = rp, case["refs"]
        else:
            qp, qmaps = os.path.join(d, "q.cmap"), case["queries"]
            with open(qp, "w") as f:
                f.write(cmap_text.cmap_text(qmaps, case.get("qry_rows")))
        argv = ["-r", rp, "-q", qp, "-o", os.path.join(d, "o.xmap"), "-pb"]
        for opt, ids in (("-rId", case["rid"]), ("-qId", case["qid"])):
            if ids:
                argv += [opt] + [str(i) for i in ids]
        args = sut(Args.parse, argv)
        prog = sut(Program, args)
        for name, got, maps, flt, trimmed in (("reference", prog.referenceMaps, case["refs"], case["rid"], False),
                                              ("query", prog.queryMaps, qmaps, case["qid"], True)):
            labelled = {m["id"]: m for m in maps if m["labels"]}
            want = {i: m for i, m in labelled.items() if (not flt) or i in flt}
            ids = [int(g.moleculeId) for g in got]
            req(sorted(ids) == sorted(want), "program-molecule-set-wrong",
                f"{name} maps of the program: ids {sorted(ids)}, expected {sorted(want)} (-rId {case['rid']}, -qId {case['qid']}, same file: {case['same_file']})")
            for g in got:
                m = want[int(g.moleculeId)]
                exp = sorted(float(f"{p:.1f}") for p in m["labels"])
                gp = [float(p) for p in g.positions]
                if trimmed:
                    req(len(gp) == len(exp) and all(abs(a - (b - exp[0])) <= 1e-6 for a, b in zip(gp, exp)), "program-query-not-trimmed",
                        lambda: f"query {m['id']}: positions {gp[:6]}.., expected the labels relative to the first one {[round(b - exp[0], 1) for b in exp[:6]]}..")
                    req(abs(g.length - (exp[-1] - exp[0] + 1)) <= 1e-6, "program-query-length-wrong",
                        f"query {m['id']}: length {g.length}, last-first+1 = {exp[-1] - exp[0] + 1}")
                else:
                    req(gp == exp, "program-reference-labels-wrong", lambda: f"reference {m['id']}: positions {gp[:6]}.., expected {exp[:6]}..")
                    req(g.length == int(float(f"{m['length']:.1f}")), "program-reference-length-wrong",
                        f"reference {m['id']}: length {g.length}, end marker says {m['length']}")
        cl = ["same-file" if case["same_file"] else "two-files", "rid" if case["rid"] else "no-rid", "qid" if case["qid"] else "no-qid"]
        return {"nontrivial": bool(case["rid"]) != bool(case["qid"]) or case["same_file"], "classes": cl}
    finally:
        if args is not None:
            for f in (args.referenceFile, args.queryFile, args.outputFile):
                try:
                    f.close()
                except Exception:  # noqa: BLE001
                    pass
        shutil.rmtree(d, ignore_errors=True)


def check_big(case):
    """files of 10^5 rows: a requested molecule's rows lie in blocks far apart, with hundreds of thousands of rows of other
    molecules between them (the statement says: regardless of row or molecule order in the file).  The case is a block
    layout; coordinates are arithmetic in the row number, so the model is the layout itself."""
    from src.parsers.cmap_reader import CmapReader
    ids, blocks, total = case["ids"], [], 0
    for mi, n in case["blocks"]:       # at most ~300k rows: the workers run under a 3 GB address-space cap of the harness
        n = max(1, min(n, 300000 - total))
        total += n
        blocks.append((mi, n))
    labels = {i: [] for i in ids}
    for mi, n in blocks:
        i = ids[mi]
        base = len(labels[i])
        labels[i].extend(round((base + k) * 523.7 + mi * 0.3, 1) for k in range(n))
    length = {i: round((labels[i][-1] if labels[i] else 0) + 1000.4, 1) for i in ids}
    lines = list(cmap_text.HEADER) + [f"# Number of Consensus Maps:\t{len(ids)}", "#h " + "\t".join(cmap_text.COLS), "#f " + "\t".join(cmap_text.TYPES)]
    seen = {i: 0 for i in ids}
    nblocks = {i: sum(1 for mi, _ in blocks if ids[mi] == i) for i in ids}
    blockno = {i: 0 for i in ids}

    def end_row(i):
        return f"{i}\t{length[i]:.1f}\t{len(labels[i])}\t{len(labels[i]) + 1}\t0\t{length[i]:.1f}\t0.0\t1.0\t1.0"
    for i in ids:
        if nblocks[i] == 0:            # a label-less molecule: its end marker only
            lines.append(end_row(i))
    for mi, n in blocks:
        i = ids[mi]
        blockno[i] += 1
        if case["end_first"] and blockno[i] == 1:
            lines.append(end_row(i))
        ps = labels[i][seen[i]:seen[i] + n]
        ks = range(seen[i], seen[i] + n)
        rows = [f"{i}\t{length[i]:.1f}\t{len(labels[i])}\t{k + 1}\t1\t{p:.1f}\t0.0\t1.0\t1.0" for k, p in zip(ks, ps)]
        if case["descending"]:
            rows.reverse()
        lines.extend(rows)
        seen[i] += n
        if not case["end_first"] and blockno[i] == nblocks[i]:
            lines.append(end_row(i))
    text = "\n".join(lines) + "\n"
    nlines = len(lines)
    del lines, rows
    flt = case["filter"]
    reader = CmapReader()
    fn = reader.readQueries if case["api"] == "q" else reader.readReferences
    try:
        got = fn(io.StringIO(text), flt)
    except MemoryError:
        return {"nontrivial": False, "classes": ["inconclusive-harness-memory-cap"]}
    except Exception as e:  # noqa: BLE001
        if "out of memory" in str(e):      # pandas' tokenizer under the harness' own address-space cap: not the reader's doing
            return {"nontrivial": False, "classes": ["inconclusive-harness-memory-cap"]}
        sut(fn, io.StringIO(text), flt)
        raise
    del text
    want = {i for i in ids if labels[i] and ((not flt) or i in flt)}
    got_ids = [int(g.moleculeId) for g in got]
    req(sorted(got_ids) == sorted(want), "big-molecule-set-wrong", f"{nlines} rows: returned ids {sorted(got_ids)}, expected {sorted(want)} (filter {flt})")
    for g in got:
        i = int(g.moleculeId)
        gp = [float(x) for x in g.positions]
        req(len(gp) == len(labels[i]), "big-label-count-wrong",
            f"file of {nlines} rows, molecule {i} in {nblocks[i]} blocks: {len(labels[i])} labels in the file, reader returned {len(gp)} (filter {flt})")
        req(gp == labels[i], "big-labels-wrong", lambda: f"molecule {i}: positions differ from the file's, first difference at "
            f"{next(k for k, (a, b) in enumerate(zip(gp, labels[i])) if a != b)}")
        req(g.length == int(length[i]), "big-length-wrong", f"molecule {i}: length {g.length}, end marker says {length[i]}")
    split = [i for i in want if nblocks[i] > 1]
    cl = ["filter" if flt else "no-filter", f"rows>={min(nlines // 65536, 4)}x65536"]
    if split:
        cl.append("requested-molecule-in-distant-blocks")
    return {"nontrivial": bool(split) and nlines > 131072, "classes": cl}


@st.composite
def big_strategy(draw):
    from vlib.gen_maps import SPECIAL_IDS
    n = draw(st.integers(2, 6))
    ids = draw(st.lists(st.one_of(st.integers(0, 30), st.sampled_from(SPECIAL_IDS[:9])), min_size=n, max_size=n, unique=True))
    size = st.one_of(st.integers(1, 40), st.integers(1000, 9000), st.sampled_from([65535, 65536, 65537, 70000, 131072, 140000]))
    blocks = draw(st.lists(st.tuples(st.integers(0, n - 1), size), min_size=2, max_size=8))
    filt = draw(st.one_of(st.none(), st.lists(st.sampled_from(ids), min_size=1, max_size=3, unique=True),
                          st.lists(st.sampled_from(ids), min_size=1, max_size=3, unique=True)))
    return {"ids": ids, "blocks": [list(b) for b in blocks], "filter": filt, "end_first": draw(st.booleans()),
            "descending": draw(st.booleans()), "api": draw(st.sampled_from(["q", "r"]))}


def _maps(draw, n, idpool):
    ids = draw(st.lists(idpool, min_size=n, max_size=n, unique=True))
    maps = []
    for i in ids:
        k = draw(st.one_of(st.integers(0, 2), st.integers(1, 12)))
        x = draw(st.sampled_from([0, 0, 1])) * draw(st.integers(0, 200000)) / 10
        labels = []
        for _ in range(k):
            labels.append(round(x, 1))
            x += draw(st.one_of(st.just(0), st.integers(1, 200000))) / 10
        length = round((labels[-1] if labels else 0) + draw(st.sampled_from([0, 0.4, 1, 1])) * draw(st.integers(0, 300000)) / 10, 1)
        maps.append({"id": i, "labels": labels, "length": length})
    return maps


@st.composite
def program_strategy(draw):
    from vlib.gen_maps import SPECIAL_IDS
    pool = st.one_of(st.integers(0, 12), st.integers(0, 12), st.sampled_from(SPECIAL_IDS[:9]))
    refs = _maps(draw, draw(st.integers(1, 5)), pool)
    same = draw(st.integers(0, 2)) == 0
    queries = refs if same else _maps(draw, draw(st.integers(1, 5)), pool)

    def flt(maps):
        ids = [m["id"] for m in maps]
        return draw(st.one_of(st.none(), st.none(), st.lists(st.one_of(st.sampled_from(ids), pool), min_size=1, max_size=4, unique=True)))
    case = {"refs": refs, "queries": [] if same else queries, "same_file": same, "rid": flt(refs), "qid": flt(queries)}
    if draw(st.booleans()):
        case["ref_rows"] = draw(st.permutations(range(cmap_text.n_rows(refs))))
    if not same and draw(st.booleans()):
        case["qry_rows"] = draw(st.permutations(range(cmap_text.n_rows(queries))))
    return case


@st.composite
def strategy(draw):
    n = draw(st.integers(1, 8))
    from vlib.gen_maps import molecule_ids
    ids = draw(st.lists(molecule_ids(st.integers(0, 30), st.integers(1, 10 ** 6)), min_size=n, max_size=n, unique=True))
    maps = []
    for i in ids:
        k = draw(st.one_of(st.integers(0, 3), st.integers(0, 40)))
        x = draw(st.integers(0, 200000)) / 10 + draw(st.sampled_from([0, 0, 0, 0, 2 ** 24 + 0.5, 36_700_000.3, 152_600_007.9]))
        labels = []
        for _ in range(k):
            labels.append(round(x, 1))
            x += draw(st.one_of(st.just(0), st.integers(0, 50), st.integers(0, 400000))) / 10
        length = round((labels[-1] if labels else 0) + draw(st.integers(0, 300000)) / 10, 1)
        maps.append({"id": i, "labels": labels, "length": length})
    nrows = cmap_text.n_rows(maps)
    rows = draw(st.one_of(st.none(), st.permutations(range(nrows))))
    cols = draw(st.one_of(st.none(), st.permutations(range(len(cmap_text.COLS)))))
    filt = draw(st.one_of(st.none(), st.just([]),
                          st.lists(st.one_of(st.sampled_from(ids), st.integers(1, 40)), min_size=1, max_size=5, unique=True)))
    return {"maps": maps, "rows": rows, "cols": cols, "extra": draw(st.integers(0, 2)), "filter": filt,
            "api": draw(st.sampled_from(["q", "r"]))}


def subchecks(tier):
    q = tier == "quick"
    subs = [Sub("read-and-trim", "hyp", check, strategy=strategy, examples=5000 if q else 100000, shrink_budget=400,
                required_classes=("label-less", "ghost-id", "permuted-columns", "shuffled"))]
    subs.append(Sub("program-maps", "hyp", check_program, strategy=program_strategy, examples=2400 if q else 60000, shrink_budget=300,
                    describe="reference and query maps as Program reads them (two files or one file for both, -rId/-qId, queries trimmed)",
                    required_classes=("same-file", "rid", "qid")))
    subs.append(Sub("big-file", "hyp", check_big, strategy=big_strategy, examples=160 if q else 3000, shrink_budget=200,
                    describe="files of up to ~500k rows in which a molecule's rows lie in blocks separated by >65536 / >131072 rows of other "
                             "molecules, end marker first or last, rows descending inside a block, id filters",
                    required_classes=("requested-molecule-in-distant-blocks",)))
    if not q:
        subs.append(fuzz_variant(next(s for s in subs if s.name == "read-and-trim"), 15000))
    return subs
