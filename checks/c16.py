"""C16 - vectorisation, blur and bin-to-bp mapping are exact; seeds are the top peaks.

Targets: vectorisePositions, blur, SequenceGenerator.positionsToSequence, toRelativeGenomicPositions,
CorrelationResult.createPeaks, PeaksSelector.selectPeaks.  Oracle: reference model from the statement.
"""
from __future__ import annotations

import itertools
import math

from hypothesis import strategies as st

from vlib.core import fuzz_variant, Sub, req, sut

PROPERTY = "C16"
RULE = ("exhaustive: 1-4 labels on 0..12 (repeats allowed) x resolution {1,2,3,5} x start {-4,-1,0,1,3,6} x end "
        "{None,-2,0,2,5,8,12,15} x blur 0..2; all bit vectors of length<=10 x radius 0..4; Hypothesis: sorted label lists "
        "(ints / one-decimal floats) up to 2e6 bp, resolutions 1..5000, negative starts, ends before the last label; random "
        "peak-height arrays per correlation with noise levels and peaksCount; peaks-scale: 40-520 correlations (up to ~3000 candidate seeds) "
        "with scores from a small pool.  non-trivial = window start not on the first "
        "label, or >=2 labels in one bin, or a tie at the peaksCount cut; distinct = distinct case")
ASSUMPTIONS = ["label lists are non-empty and sorted ascending", "resolution is an int >= 1, blur radius an int >= 0",
               "bin centre: |value - (binStart + (res-1)/2)| <= 0.5 (either rounding of a half-integer centre accepted)",
               "ties at the cut-off: any choice accepted (compared as score multisets)"]


def model_bits(labels, res, start, n):
    bits = [0] * n
    for p in labels:
        i = math.floor((p - start) / res)
        if 0 <= i < n:
            bits[i] = 1
    return bits


def model_blur(v, r):
    n = len(v)
    return [1 if any(v[j] for j in range(max(0, i - r), min(n, i + r + 1))) else 0 for i in range(n)]


def check_vec(case):
    from src.correlation.sequence_generator import SequenceGenerator
    from src.correlation.vectorise import blur, vectorisePositions
    labels, res, start, end, rad = case["labels"], case["res"], case["start"], case["end"], case.get("blur", 0)
    v = list(sut(lambda: list(vectorisePositions(labels, res, start, end))))
    n = len(v)
    req(all(b in (0, 1) for b in v), "not-bits", f"vector contains non-bits: {v[:20]}")
    exp = model_bits(labels, res, start, n)
    req(v == exp, "bit-wrong", lambda: f"vector {v[:40]} != expected {exp[:40]} for labels={labels[:10]} res={res} start={start} end={end}")
    e = end if end else labels[-1]   # 0/None mean "up to the last label" in this API
    for p in labels:
        if start <= p <= e:
            i = math.floor((p - start) / res)
            req(i < n, "label-outside-vector", f"label {p} (bin {i}) between start {start} and end {e} is outside the vector of length {n}")
    req(n <= max(0, math.floor((max(labels[-1], e) - start) / res)) + 2, "vector-too-long", f"vector length {n} runs past every label and the end")
    b = sut(blur, list(v), rad)
    req(len(b) == n, "blur-length", f"blur changed the length {n} -> {len(b)}")
    eb = model_blur(v, rad)
    req([int(x) for x in b] == eb, "blur-wrong", lambda: f"blur radius {rad} of {v[:40]} gave {[int(x) for x in b][:40]}, expected {eb[:40]}")
    s = sut(SequenceGenerator(res, rad).positionsToSequence, labels, start, end)
    req([int(x) for x in s] == eb, "sequence-generator-differs", "positionsToSequence != blur(vectorise)")
    bins = [math.floor((p - start) / res) for p in labels]
    nt = start != labels[0] or len(set(bins)) < len(bins)
    return {"nontrivial": nt, "classes": ["neg-start" if start < 0 else "start>=0", "end-before-last" if (end and end < labels[-1]) else "end-free",
                                         "shared-bin" if len(set(bins)) < len(bins) else "one-per-bin"]}


def check_blur(case):
    from src.correlation.vectorise import blur
    v, r = case["v"], case["r"]
    b = sut(blur, list(v), r)
    req(len(b) == len(v), "blur-length", f"blur changed the length {len(v)} -> {len(b)}")
    eb = model_blur(v, r)
    req([int(x) for x in b] == eb, "blur-wrong", f"blur radius {r} of {v} gave {[int(x) for x in b]}, expected {eb}")
    return {"nontrivial": any(v) and r > 0, "classes": [f"r={r}"]}


def check_centre(case):
    import numpy as np
    from src.correlation.optical_map import toRelativeGenomicPositions
    res, start, idx = case["res"], case["start"], case["idx"]
    out = sut(toRelativeGenomicPositions, np.array(idx), res, start)
    req(len(out) == len(idx), "centre-length", "length changed")
    for i, c in zip(idx, out):
        centre = start + i * res + (res - 1) / 2
        req(abs(float(c) - centre) <= 0.5 + 1e-9, "bin-centre-wrong", f"bin {i} res {res} start {start}: got {c}, centre {centre}")
    for p in case["labels"]:
        i = (p - start) // res
        c = float(sut(toRelativeGenomicPositions, np.array([i]), res, start)[0])
        req(abs(p - c) <= res / 2 + 1e-9, "label-not-within-half-resolution", f"label {p} -> bin {i} -> {c}, off by more than {res / 2}")
    return {"nontrivial": True, "classes": ["odd" if res % 2 else "even"]}


def check_peaks(case):
    import numpy as np
    from src.correlation.optical_map import CorrelationResult, toRelativeGenomicPositions
    from src.correlation.peaks_selector import PeaksSelector
    count, res = case["count"], case["res"]
    corrs = []
    allscores = []
    tie = False
    for k, c in enumerate(case["corrs"]):
        heights = np.array(c["heights"], dtype=float)
        pos = np.array(c["pos"], dtype=int)
        props = {"peak_heights": heights, "left_ips": pos - 0.5, "right_ips": pos + 0.5}
        peaks = sut(CorrelationResult.createPeaks, pos, props, res, c["start"], c["noise"], count)
        exp_h = sorted(c["heights"], reverse=True)[:count]
        got_h = sorted((float(p.height) for p in peaks), reverse=True)
        req(got_h == [float(x) for x in exp_h], "createpeaks-not-top-n",
            f"createPeaks kept heights {got_h}, the {count} highest are {exp_h}")
        valid = {(int(toRelativeGenomicPositions(np.array([p_]), res, c["start"])[0]), float(h)) for p_, h in zip(c["pos"], c["heights"])}
        got = [(int(p.position), float(p.height)) for p in peaks]
        req(all(g in valid for g in got), "createpeaks-invented-peak", f"peak {got} not among input peaks")
        req(len(set(got)) == len(got), "createpeaks-repeats", "a peak was returned twice")
        for p in peaks:
            req(float(p.score) == float(p.height) - c["noise"], "peak-score-wrong", f"score {p.score} != height {p.height} - noise {c['noise']}")
        corrs.append(CorrelationResult(np.array([]), None, None, peaks, False, c["noise"]))
        allscores += [float(np.float64(h) - np.float64(c["noise"])) for h in c["heights"]]
    sel = sut(PeaksSelector(count).selectPeaks, iter(corrs))
    exp = sorted(allscores, reverse=True)[:count]
    got = [float(s.peak.score) for s in sel]
    req(got == sorted(got, reverse=True), "seeds-not-descending", f"selected seed scores not in descending order: {got}")
    req(sorted(got, reverse=True) == exp, "seeds-not-top-n", f"selected seed scores {got}; the {count} best over all correlations are {exp}")
    ids = [(id(s.primaryCorrelation), id(s.peak)) for s in sel]
    req(len(set(ids)) == len(ids), "seed-repeated", "a seed was selected twice")
    for s in sel:
        req(any(s.primaryCorrelation is c for c in corrs) and any(s.peak is p for p in s.primaryCorrelation.peaks),
            "seed-not-real", "selected seed is not a (correlation, peak) pair of the input")
    srt = sorted(allscores, reverse=True)
    if len(srt) > count and srt[count - 1] == srt[count]:
        tie = True
    return {"nontrivial": len(allscores) > count, "classes": ["tie-at-cut" if tie else "no-tie", f"corrs={min(len(corrs), 4)}"]}


def enum_vec(full):
    starts = (-4, -1, 0, 1, 3, 6)
    ends = (None, -2, 0, 2, 5, 8, 12, 15)
    ress = (1, 2, 3, 5)
    maxn = 4 if full else 3

    def gen(shard, nshards):
        k = 0
        for n in range(1, maxn + 1):
            for labels in itertools.combinations_with_replacement(range(13), n):
                k += 1
                if k % nshards != shard:
                    continue
                for res in ress:
                    for s in starts:
                        for e in ends:
                            yield {"labels": list(labels), "res": res, "start": s, "end": e, "blur": (k + res) % 3}
    return gen


def enum_blur(shard, nshards):
    k = 0
    for n in range(0, 11):
        for v in itertools.product((0, 1), repeat=n):
            k += 1
            if k % nshards != shard:
                continue
            for r in range(5):
                yield {"v": list(v), "r": r}


@st.composite
def vec_case(draw):
    fl = draw(st.booleans())
    n = draw(st.integers(1, 60))
    res = draw(st.one_of(st.sampled_from([1, 2, 3, 100, 1400, 701, 5000]), st.integers(1, 5000)))
    gap = st.one_of(st.integers(0, 3 * res), st.integers(0, 40000))
    x = draw(st.integers(0, 50000))
    labels = []
    for _ in range(n):
        labels.append(round(x + draw(st.integers(0, 9)) / 10, 1) if fl else x)
        x += draw(gap)
    labels.sort()
    start = draw(st.one_of(st.just(0), st.integers(-20000, int(labels[0])), st.integers(int(labels[0]), int(labels[-1]) + 1)))
    end = draw(st.one_of(st.none(), st.integers(start - 100, int(labels[-1]) + 3 * res)))
    if len(labels) and (labels[-1] - start) / res > 30000:
        res = max(res, int((labels[-1] - start) / 30000) + 1)
    return {"labels": labels, "res": res, "start": start, "end": end, "blur": draw(st.integers(0, 5))}


@st.composite
def vec_scale_case(draw):
    """several hundred to a few thousand labels, most of them in bins of their own (more set bits than a byte counts);
    built from few draws"""
    n = draw(st.sampled_from([255, 256, 257, 300, 512, 513, 700, 1500, 3000]))
    res = draw(st.sampled_from([1, 100, 1400, 701]))
    g = res * draw(st.integers(1, 6))
    jitter = draw(st.integers(1, max(1, g)))
    x0 = draw(st.integers(0, 50000))
    labels = sorted(x0 + i * g + (i * i * 7) % jitter for i in range(n))
    start = draw(st.sampled_from([0, x0, x0 - 3 * res]))
    return {"labels": labels, "res": res, "start": start, "end": None, "blur": draw(st.integers(0, 4))}


def check_vec_history(case):
    """one SequenceGenerator serves many maps: each call gets a list object of its own that is dropped right after the
    call (as the lists of a molecule are once it has been aligned); every returned sequence must be the blurred bit vector
    of the labels passed in that call"""
    from src.correlation.sequence_generator import SequenceGenerator
    res, rad = case["res"], case["blur"]
    gen = SequenceGenerator(res, rad)
    for k, c in enumerate(case["lists"]):
        s = sut(gen.positionsToSequence, list(c["labels"]), c["start"], c["end"])
        n = len(s)
        exp = model_blur(model_bits(c["labels"], res, c["start"], n), rad)
        req([int(x) for x in s] == exp, "sequence-of-another-call",
            lambda: f"call {k + 1} on one generator: sequence {[int(x) for x in s][:30]} is not the blurred vector {exp[:30]} of the labels passed ({c['labels'][:8]}..)")
        e = c["end"] if c["end"] else c["labels"][-1]
        for p in c["labels"]:
            if c["start"] <= p <= e:
                req(math.floor((p - c["start"]) / res) < n, "label-outside-vector", f"call {k + 1}: label {p} outside the sequence of length {n}")
    return {"nontrivial": len(case["lists"]) >= 2, "classes": [f"calls={len(case['lists'])}"]}


@st.composite
def vec_history_case(draw):
    res = draw(st.sampled_from([1, 2, 100, 1400]))
    k = draw(st.integers(2, 5))
    n = draw(st.integers(1, 12))
    lists = []
    for _ in range(k):
        m = n if draw(st.integers(0, 3)) else draw(st.integers(1, 12))     # mostly lists of equal length
        x = draw(st.integers(0, 20 * res))
        lab = []
        for _ in range(m):
            lab.append(x)
            x += draw(st.integers(0, 6 * res))
        start = draw(st.sampled_from([0, 0, lab[0], lab[0] - res]))
        lists.append({"labels": lab, "start": start, "end": draw(st.sampled_from([None, None, lab[-1] + res]))})
    return {"res": res, "blur": draw(st.integers(0, 3)), "lists": lists}


@st.composite
def centre_case(draw):
    res = draw(st.one_of(st.integers(1, 12), st.sampled_from([100, 1400, 701, 999, 5000]), st.integers(1, 5000)))
    start = draw(st.integers(-50000, 500000))
    idx = draw(st.lists(st.integers(0, 100000), min_size=1, max_size=8))
    labels = draw(st.lists(st.integers(start, start + 10 ** 6), min_size=1, max_size=8))
    return {"res": res, "start": start, "idx": idx, "labels": labels}


@st.composite
def peaks_case(draw):
    count = draw(st.integers(1, 8))
    res = draw(st.sampled_from([1, 100, 1400]))
    pool = draw(st.sampled_from([[1.0, 2.0, 3.0], [0.5, 0.75, 0.8, 0.9, 1.0], None]))
    corrs = []
    for _ in range(draw(st.integers(0, 5))):
        n = draw(st.integers(0, 12))
        if pool:
            hs = [draw(st.sampled_from(pool)) for _ in range(n)]
        else:
            hs = [draw(st.integers(1, 4000)) / 64 for _ in range(n)]
        pos = sorted(draw(st.lists(st.integers(0, 5000), min_size=n, max_size=n, unique=True)))
        corrs.append({"heights": hs, "pos": pos, "start": draw(st.sampled_from([0, -16000, 123456])),
                      "noise": draw(st.sampled_from([0.0, 0.25, 0.5, 0.125]))})
    return {"count": count, "res": res, "corrs": corrs}


@st.composite
def peaks_scale_case(draw):
    """hundreds of correlations (fragmented references x two strands), i.e. more candidate seeds than a byte counts, with
    heights from a small pool so that the cut falls inside a run of exactly equal scores; the lists are arithmetic in a few
    drawn numbers"""
    count = draw(st.integers(1, 8))
    ncorr = draw(st.sampled_from([40, 90, 129, 257, 300, 520]))
    npk = draw(st.integers(1, 6))
    pool = draw(st.sampled_from([[1.0, 2.0, 3.0], [0.5, 0.75, 0.8, 0.9, 1.0], [k / 64 for k in range(1, 400)]]))
    a, b, c = draw(st.integers(1, 97)), draw(st.integers(0, 97)), draw(st.integers(0, 97))
    noise = draw(st.sampled_from([0.0, 0.25, 0.125]))
    top = draw(st.integers(0, 3))          # a few clear winners above the pool, so the cut falls among the tied rest
    corrs = []
    for k in range(ncorr):
        hs = [pool[(a * k + b * j + c) % len(pool)] for j in range(npk)]
        if k < top:
            hs[0] = 10.0 + k
        corrs.append({"heights": hs, "pos": [100 * j + (k % 50) for j in range(npk)], "start": 0, "noise": noise})
    return {"count": count, "res": draw(st.sampled_from([1, 100])), "corrs": corrs}


def subchecks(tier):
    q = tier == "quick"
    subs = [
        Sub("vectorise-exhaustive", "enum", check_vec, enumerate=enum_vec(True), exhaustive=True,
            describe="1-4 labels on 0..12 x res x start x end", time_budget_s=3000),
        Sub("blur-exhaustive", "enum", check_blur, enumerate=enum_blur, exhaustive=True, describe="all bit vectors len<=10 x radius 0..4"),
        Sub("vectorise-random", "hyp", check_vec, strategy=vec_case, examples=6000 if q else 150000, shrink_budget=800),
        Sub("vectorise-scale", "hyp", check_vec, strategy=vec_scale_case, examples=160 if q else 4000, shrink_budget=60,
            describe="255-3000 labels in bins of their own (more set bits than a byte counts)"),
        Sub("generator-history", "hyp", check_vec_history, strategy=vec_history_case, examples=4000 if q else 100000, shrink_budget=600,
            describe="one SequenceGenerator reused for 2-5 label lists, each passed as a list object of its own"),
        Sub("bin-centre", "hyp", check_centre, strategy=centre_case, examples=6000 if q else 200000, shrink_budget=800),
        Sub("peaks", "hyp", check_peaks, strategy=peaks_case, examples=8000 if q else 300000, shrink_budget=800,
            required_classes=("tie-at-cut",)),
        Sub("peaks-scale", "hyp", check_peaks, strategy=peaks_scale_case, examples=320 if q else 8000, shrink_budget=60,
            describe="40-520 correlations of 1-6 peaks (up to ~3000 candidate seeds), scores from a small pool: ties at the cut",
            required_classes=("tie-at-cut",), sample_filter=lambda c: {"count": c["count"], "res": c["res"], "correlations": len(c["corrs"]), "first_two": c["corrs"][:2]}),
    ]
    if not q:
        subs.append(fuzz_variant(next(s for s in subs if s.name == "vectorise-random"), 40000))
    if not q:
        subs.append(fuzz_variant(next(s for s in subs if s.name == "peaks"), 40000))
    return subs
