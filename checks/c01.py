"""C01 - every reported alignment is a one-to-one, collinear matching of real labels.

Targets: Aligner.align (candidates from ladders of seed peaks), every record of every XMAP file of
every output mode, every candidate dispatched during a run; a sample through the real CLI.
Oracle: valid_matching invariant recomputed from file text and harness maps.
"""
from __future__ import annotations

from hypothesis import strategies as st

from vlib import gen_maps, gen_unit, join_unit, pipeline, scale, xmap_text
from vlib.core import Sub, Violation, req, sut
from vlib.oracles import matching_problem

PROPERTY = "C01"
RULE = ("unit: integer label data (reference 10-60 labels; query = window x stretch x jitter x dropout x optional indel; both "
        "strands) with ladders of 1-8 seed peaks around the true offset fed to Aligner.align wired as the factory wires it; "
        "pipeline: generated CMAP sets (exact/noisy/stretched/indel/chimeric/partial/repeat/short/degenerate queries) x 4 output "
        "modes x CLI parameter draws, every record of main/_1/_2 files and every dispatched candidate; CLI: same cases through "
        "the real entry point, files must equal the in-process ones.  non-trivial = record/candidate with >=2 non-empty segments, "
        "or a joined record, or a second-pass record; distinct = distinct case")
ASSUMPTIONS = ["label numbers are checked against the harness' own model of the CMAP text it wrote",
               "candidates may have zero pairs; records may not",
               "pipeline crashes are C07's to report and are only counted here"]


def _check_pairs(pairs, ori, nref, nqry, where, allow_empty=False):
    if allow_empty and not pairs:
        return
    prob = matching_problem(pairs, ori, nref, nqry)
    if prob:
        raise Violation(prob[0], f"{where}: {prob[1]}")


def check_unit(case, aligner=None):
    ref, qry = gen_unit.build_maps(case)
    if aligner is None:
        aligner = gen_unit.build_aligner(case["params"])
    peaks = gen_unit.build_peaks(case)
    row = sut(aligner.align, ref, qry, peaks, case["rev"])
    pairs = [(p.reference.siteId, p.query.siteId) for p in row.alignedPairs]
    nseg = sum(1 for s in row.segments if s.positions)
    cl = [f"segments={min(nseg, 4)}", "rev" if case["rev"] else "fwd"]
    sh = case.get("shift", 0)
    _check_pairs(pairs, "-" if case["rev"] else "+", len(case["ref"]), sh + len(case["query"]),
                 f"Aligner.align candidate from {len(peaks)} peaks ({nseg} segments)", allow_empty=True)
    req(all(q > sh for _, q in pairs), "pair-names-label-outside-fragment",
        f"fragment with label numbers {sh + 1}..{sh + len(case['query'])} paired with query labels {sorted(q for _, q in pairs if q <= sh)}")
    return {"nontrivial": nseg >= 2, "classes": cl}


def check_unit_history(case):
    """one Aligner (scorer, factory, engine, chainer, resolver) used for several calls in a row, as one worker uses it
    for every reference and strand of a query and later for the fragments of that query (same id and length)"""
    aligner = gen_unit.build_aligner(case["params"])
    nt = False
    cl = set()
    for c in case["calls"]:
        info = check_unit(dict(c, params=case["params"]), aligner)
        nt = nt or info["nontrivial"]
        cl.update(info["classes"])
    kinds = [c.get("kind", "base") for c in case["calls"]]
    return {"nontrivial": nt and "fragment" in kinds, "classes": sorted(cl | {"then-" + k for k in kinds[1:]})}


@st.composite
def unit_history_strategy(draw):
    base = draw(gen_unit.aligner_case(min_peaks=1, max_peaks=6))
    params = base.pop("params")
    calls = [dict(base, kind="base")]
    for _ in range(draw(st.integers(1, 2))):
        kind = draw(st.sampled_from(["fragment", "fragment", "strand", "other"]))
        if kind == "fragment":
            n = len(base["query"])
            # a head or a tail of the molecule, as AlignmentResultRow.getUnalignedFragments builds them
            cut = draw(st.integers(0, n - 1))
            a, b = (0, cut) if draw(st.booleans()) else (cut, n - 1)
            c = dict(base, query=base["query"][a:b + 1], shift=a, kind=kind)
        elif kind == "strand":
            c = dict(base, rev=not base["rev"], kind=kind)
        else:
            c = dict(draw(gen_unit.aligner_case(min_peaks=1, max_peaks=6, force_params={})), kind=kind)
            c.pop("params", None)
        calls.append(c)
    return {"params": params, "calls": calls}


def check_join_unit(case):
    """every row that comes out of the first/second-pass join (joined or returned un-joined) is a valid matching"""
    jr = join_unit.run(case)
    nt = False
    cl = {f"mode={case['mode']}"}
    nref, nq = len(case["ref"]), len(case["query"])
    for st_ in jr.steps:
        for kind, rows in (("joined", st_["joined"]), ("un-joined", st_["separate"])):
            for row in rows:
                _check_pairs(join_unit.pairs_of(row), row.orientation, nref, nq,
                             f"{kind} row out of resolve({st_['kind']}, fragment {st_['fragment']})")
                if kind == "joined":
                    nt = True
                    cl.add("joined")
    return {"nontrivial": nt, "classes": sorted(cl)}


def check_run(run, cl):
    """all records of all files + all candidates; returns nontrivial flag"""
    nt = False
    if run.format_error:
        cl.append("format-error(C07)")
    for suf, recs in run.files.items():
        for rec in recs:
            try:
                rid, qid = int(rec["RefContigID"]), int(rec["QryContigID"])
            except (KeyError, ValueError):
                cl.append("unparsable-ids(C02)")
                continue
            req(rid in run.refs, "record-names-unknown-reference", f"{suf} entry {rec.get('XmapEntryID')}: RefContigID {rid} is not an input map")
            req(qid in run.queries, "record-names-unknown-query", f"{suf} entry {rec.get('XmapEntryID')}: QryContigID {qid} is not an input map")
            _check_pairs(rec["pairs"], rec.get("Orientation"), run.refs[rid]["n"], run.queries[qid]["n"],
                         f"mode {run.mode} file {suf} entry {rec.get('XmapEntryID')} (query {qid}, AlignedRest={rec.get('AlignedRest')})")
            if rec.get("AlignedRest") == "True":
                nt = True
                cl.append("second-pass-record")
            if suf == "main" and run.mode in ("joined", "all"):
                nt = True
                cl.append("joined-record")
    from src.extensions.messages import AlignmentResultRowMessage
    for m in run.messages:
        if isinstance(m, AlignmentResultRowMessage):
            row = m.alignment
            pairs = [(p.reference.siteId, p.query.siteId) for p in row.alignedPairs]
            nseg = sum(1 for s in row.segments if s.positions)
            if nseg >= 2:
                nt = True
                cl.append("multi-segment-candidate")
            rid, qid = m.reference.moleculeId, m.query.moleculeId
            if rid in run.refs and qid in run.queries:
                _check_pairs(pairs, "-" if row.reverseStrand else "+", run.refs[rid]["n"], run.queries[qid]["n"],
                             f"candidate (query {qid}, reference {rid}, {nseg} segments, fragment shift {m.query.shift})", allow_empty=True)
    if run.rows is not None:
        for row in run.rows:
            nseg = sum(1 for s in row.segments if s.positions)
            if nseg >= 2:
                nt = True
                cl.append("multi-segment-record")
    return nt


def check_pipeline(case):
    run = pipeline.run_case(case)
    cl = [f"mode={run.mode}"]
    if run.crashed:
        return {"nontrivial": False, "classes": ["pipeline-crash:" + run.crash_signature]}
    nt = check_run(run, cl)
    return {"nontrivial": nt, "classes": sorted(set(cl))}


def check_cli(case):
    run = pipeline.run_case(case)
    cl = [f"mode={run.mode}"]
    cli = pipeline.run_cli(case, cpus=case.get("cpus", 2))
    req(cli.crashed == run.crashed, "cli-inprocess-disagree-on-crash",
        f"in-process crashed={run.crashed} ({run.crash_signature}) but CLI crashed={cli.crashed} ({cli.crash_signature}): {cli.crash_text}")
    if run.crashed:
        return {"nontrivial": False, "classes": ["pipeline-crash:" + run.crash_signature]}
    req(set(cli.raw) == set(run.raw), "cli-inprocess-file-sets-differ", f"CLI wrote {sorted(cli.raw)}, in-process {sorted(run.raw)}")
    for suf in run.raw:
        req(xmap_text.strip_volatile(cli.raw[suf]) == xmap_text.strip_volatile(run.raw[suf]), "cli-inprocess-output-differs",
            f"file {suf} differs between the CLI (real pool) and the in-process driver")
    cli_cl = []
    nt = check_run(cli, cli_cl)
    nt = check_run(run, cl) or nt
    return {"nontrivial": nt or any(len(r) for r in run.files.values()), "classes": sorted(set(cl))}


def unit_case_strategy():
    return gen_unit.mixed_case(min_peaks=1, max_peaks=8)


def pipeline_strategy():
    # parameter draws that multiply short segments are over-represented (-sp 2000, small -d, more peaks)
    return gen_maps.pipeline_case(weight_default=3, flank_repeat=1)


@st.composite
def cli_strategy(draw):
    case = draw(gen_maps.pipeline_case(max_queries=4, ref_sizes=("small", "small", "medium")))
    case["cpus"] = draw(st.sampled_from([1, 2, 3]))
    return case


def subchecks(tier):
    q = tier == "quick"
    return [
        Sub("aligner-unit", "hyp", check_unit, strategy=unit_case_strategy, examples=24000 if q else 600000, shrink_budget=600,
            describe="Aligner.align on real label data with ladders of seed peaks", required_classes=("segments=3",)),
        Sub("swarm", "hyp", check_unit, strategy=gen_unit.swarm_case, examples=400 if q else 12000, shrink_budget=100,
            describe="Aligner.align seeded by 18-40 peaks 25-100 bp apart on a molecule of 1-3 labels"),
        Sub("aligner-history", "hyp", check_unit_history, strategy=unit_history_strategy, examples=8000 if q else 200000, shrink_budget=600,
            describe="one Aligner instance reused for a query, its fragments (same id and length), the other strand and other molecules",
            required_classes=("then-fragment",)),
        Sub("join-unit", "hyp", check_join_unit, strategy=join_unit.join_case, examples=8000 if q else 200000, shrink_budget=600,
            describe="rows out of AlignmentResults.resolve(first-pass row, second-pass row of its own fragment), unit level",
            required_classes=("joined",)),
        Sub("pipeline", "hyp", check_pipeline, strategy=pipeline_strategy, examples=1200 if q else 30000, shrink_budget=150,
            describe="every record of every file + every candidate, in-process", sample_filter=gen_maps.short_case,
            required_classes=("second-pass-record", "joined-record", "multi-segment-candidate")),
        Sub("cli", "hyp", check_cli, strategy=cli_strategy, examples=32 if q else 400, shrink_budget=10,
            describe="same through the real CLI / process pool, files equal to in-process", sample_filter=gen_maps.short_case),
        Sub("huge-reference", "hyp", check_pipeline, strategy=lambda: scale.huge_reference_case(straddle=False), examples=1 if q else 16, shrink_budget=0, skip_first=True,
            shards=1 if q else 16, sample_filter=scale.short, time_budget_s=3000,
            describe="a reference of 33 000-36 000 labels: records whose label numbers lie above 32 767"),
    ]
