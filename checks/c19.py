"""C19 - alignment comparison partitions keys; measures are bounded, reflexive and swap-symmetric.

Target: AlignmentComparer.compare with AlignmentRowComparer (both combineMultipleQuerySources values).
Oracle: algebraic laws.
"""
from __future__ import annotations

from hypothesis import strategies as st

from vlib.core import fuzz_variant, Sub, req, sut

PROPERTY = "C19"
RULE = ("two alignment sets over a small key space (query ids 1-4 x reference ids 1-3, so keys collide and repeat), pair lists of "
        "0-150 pairs (<200: difflib's autojunk heuristic stays off) with duplicated query labels, duplicated reference labels and repeated identical pairs, the second set partly derived "
        "from the first (copies, subsets, perturbations), both combineMultipleQuerySources values.  non-trivial = both sets "
        "non-empty with >=1 shared and >=1 exclusive key; distinct = distinct case")
ASSUMPTIONS = ["pair lists shorter than 200 elements (difflib.SequenceMatcher autojunk is asymmetric by design above that)",
               "a key occurring twice inside one set counts once (the comparer keeps one alignment per key)",
               "average coverages are compared under swap only when both directions report the same overlapping rows"]


def build(al):
    from src.correlation.bionano_alignment import BionanoAlignment
    from src.diagnostic.benchmark_alignment import BenchmarkAlignedPair, BenchmarkAlignmentPosition
    out = []
    for n_, a in enumerate(al):
        pairs = [BenchmarkAlignedPair(BenchmarkAlignmentPosition(r, 0), BenchmarkAlignmentPosition(q, 0)) for r, q in a["pairs"]]
        out.append(BionanoAlignment(n_ + 1, a["q"], a["r"], 0, 0, 0, 0, a.get("rev", False), 1.0, "", 10, 10, pairs))
    return out


def keys(al):
    return {(a["q"], a["r"]) for a in al}


def check(case):
    from src.diagnostic.alignment_comparer import (AlignmentComparer, AlignmentRowComparer,
                                                  AlignmentRowComparisonResultType as T)
    A, B = case["a"], case["b"]
    comparer = AlignmentComparer(AlignmentRowComparer(case["combine"]))
    ab = sut(comparer.compare, build(A), build(B))
    ka, kb = keys(A), keys(B)
    union = ka | kb
    req(ab.overlapping + ab.nonOverlapping + ab.firstOnly + ab.secondOnly == len(union), "keys-not-partitioned",
        f"overlapping {ab.overlapping} + nonOverlapping {ab.nonOverlapping} + firstOnly {ab.firstOnly} + secondOnly {ab.secondOnly} != {len(union)} distinct keys")
    req(ab.firstOnly == len(ka - kb), "first-only-count", f"firstOnly {ab.firstOnly}, keys only in the first set {len(ka - kb)}")
    req(ab.secondOnly == len(kb - ka), "second-only-count", f"secondOnly {ab.secondOnly}, keys only in the second set {len(kb - ka)}")
    rk = [(r.queryId, r.referenceId) for r in ab.rows]
    req(sorted(rk) == sorted(union), "rows-do-not-cover-keys-once", f"row keys {sorted(rk)} vs distinct keys {sorted(union)}")
    for r in ab.rows:
        for name in ("identity", "alignment1Coverage", "alignment2Coverage"):
            v = getattr(r, name)
            req(0 <= v <= 1, "measure-out-of-range", f"key {(r.queryId, r.referenceId)}: {name} = {v}")
        if (r.queryId, r.referenceId) in ka & kb:
            req(r.type == T.BOTH, "row-type-wrong", f"key {(r.queryId, r.referenceId)} is in both sets but typed {r.type}")
            p1, p2 = set(r.alignment1.alignedPairs), set(r.alignment2.alignedPairs)
            req(set(r.alignment1ExclusivePairs) <= p1 - p2 and set(r.alignment2ExclusivePairs) <= p2 - p1, "exclusive-pairs-not-exclusive",
                f"key {(r.queryId, r.referenceId)}: a pair reported as exclusive to one alignment is not in it or is also in the other")
    for name in ("avgOverlappingAlignment1Coverage", "avgOverlappingAlignment2Coverage", "avgOverlappingIdentity"):
        req(0 <= getattr(ab, name) <= 1, "measure-out-of-range", f"{name} = {getattr(ab, name)}")
    # reflexivity
    aa = sut(comparer.compare, build(A), build(A))
    req(aa.firstOnly == 0 and aa.secondOnly == 0, "self-comparison-has-exclusive-keys", f"compare(A,A): firstOnly {aa.firstOnly}, secondOnly {aa.secondOnly}")
    for r in aa.rows:
        req(r.type == T.BOTH, "self-comparison-row-type", f"compare(A,A): row typed {r.type}")
        if r.alignment1.alignedPairs:
            req(r.identity == 1 and r.alignment1Coverage == 1 and r.alignment2Coverage == 1, "self-comparison-not-perfect",
                f"compare(A,A) key {(r.queryId, r.referenceId)}: identity {r.identity}, coverages {r.alignment1Coverage}/{r.alignment2Coverage}")
            req(not r.alignment1ExclusivePairs and not r.alignment2ExclusivePairs, "self-comparison-exclusive-pairs",
                f"compare(A,A) key {(r.queryId, r.referenceId)} reports exclusive pairs")
    # swap
    ba = sut(comparer.compare, build(B), build(A))
    req((ba.firstOnly, ba.secondOnly) == (ab.secondOnly, ab.firstOnly), "swap-only-counts", f"compare(A,B) only-counts {(ab.firstOnly, ab.secondOnly)}, compare(B,A) {(ba.firstOnly, ba.secondOnly)}")
    rab = {(r.queryId, r.referenceId): r for r in ab.rows if r.type == T.BOTH}
    rba = {(r.queryId, r.referenceId): r for r in ba.rows if r.type == T.BOTH}
    req(set(rab) == set(rba), "swap-both-keys", "compare(A,B) and compare(B,A) disagree on the keys present in both")
    for k, r in rab.items():
        s = rba[k]
        req((r.alignment1Coverage, r.alignment2Coverage) == (s.alignment2Coverage, s.alignment1Coverage), "swap-coverages",
            f"key {k}: coverages {(r.alignment1Coverage, r.alignment2Coverage)} vs swapped run {(s.alignment1Coverage, s.alignment2Coverage)}")
        req(set(r.alignment1ExclusivePairs) == set(s.alignment2ExclusivePairs) and set(r.alignment2ExclusivePairs) == set(s.alignment1ExclusivePairs),
            "swap-exclusive-pairs", f"key {k}: exclusive pairs are not swapped")
    if {k for k, r in rab.items() if r.overlapping} == {k for k, r in rba.items() if r.overlapping}:
        req(abs(ab.avgOverlappingAlignment1Coverage - ba.avgOverlappingAlignment2Coverage) <= 1e-12
            and abs(ab.avgOverlappingAlignment2Coverage - ba.avgOverlappingAlignment1Coverage) <= 1e-12, "swap-average-coverages",
            f"averages {(ab.avgOverlappingAlignment1Coverage, ab.avgOverlappingAlignment2Coverage)} vs swapped "
            f"{(ba.avgOverlappingAlignment1Coverage, ba.avgOverlappingAlignment2Coverage)}")
        req(ab.overlapping == ba.overlapping and ab.nonOverlapping == ba.nonOverlapping, "swap-overlap-counts", "overlapping/nonOverlapping counts change under swap")
    nt = bool(A) and bool(B) and bool(ka & kb) and bool(ka ^ kb)
    cl = ["combine" if case["combine"] else "plain"]
    if any(len({q for _, q in a["pairs"]}) < len(a["pairs"]) for a in A + B):
        cl.append("duplicated-query-label")
    if len(ka) < len(A) or len(kb) < len(B):
        cl.append("key-twice-in-one-set")
    if any(not a["pairs"] for a in A + B):
        cl.append("empty-alignment")
    if any(len({tuple(x) for x in a["pairs"]}) < len(a["pairs"]) for a in A + B):
        cl.append("repeated-identical-pair")
    return {"nontrivial": nt, "classes": cl}


def check_long(case):
    """alignments of thousands of pairs that share one or a few pairs: identity is tiny but positive.  Lists of this
    length are in difflib's autojunk regime, which is asymmetric by design, so only the clauses that do not depend on
    the two directions agreeing are asserted: the key partition and the bounds"""
    from src.diagnostic.alignment_comparer import AlignmentComparer, AlignmentRowComparer
    A, B = case["a"], case["b"]
    comparer = AlignmentComparer(AlignmentRowComparer(case["combine"]))
    ab = sut(comparer.compare, build(A), build(B))
    ka, kb = keys(A), keys(B)
    req(ab.overlapping + ab.nonOverlapping + ab.firstOnly + ab.secondOnly == len(ka | kb), "keys-not-partitioned",
        f"overlapping {ab.overlapping} + nonOverlapping {ab.nonOverlapping} + firstOnly {ab.firstOnly} + secondOnly {ab.secondOnly} != {len(ka | kb)} distinct keys")
    req(ab.firstOnly == len(ka - kb) and ab.secondOnly == len(kb - ka), "first-only-count", "only-counts differ from the set differences")
    for r in ab.rows:
        for name in ("identity", "alignment1Coverage", "alignment2Coverage"):
            req(0 <= getattr(r, name) <= 1, "measure-out-of-range", f"key {(r.queryId, r.referenceId)}: {name} = {getattr(r, name)}")
    return {"nontrivial": True, "classes": ["long"]}


@st.composite
def long_case(draw):
    n = draw(st.sampled_from([2100, 2600, 4200]))
    shared = draw(st.integers(1, 3))
    a = [[i + 1, i + 1] for i in range(n)]
    b = [[i + 1, i + 1] for i in range(shared)] + [[10 ** 5 + i, 10 ** 5 + i] for i in range(n - shared)]
    A = [{"q": 1, "r": 1, "pairs": a}]
    B = [{"q": 1, "r": 1, "pairs": b}]
    if draw(st.booleans()):
        A.append({"q": 2, "r": 1, "pairs": [[1, 1], [2, 2]]})
    if draw(st.booleans()):
        B.append({"q": 3, "r": 2, "pairs": [[5, 5]]})
    if draw(st.booleans()):
        A, B = B, A
    return {"a": A, "b": B, "combine": draw(st.booleans())}


def reflexive(res, T, what):
    req(res.firstOnly == 0 and res.secondOnly == 0, "self-comparison-has-exclusive-keys", f"{what}: firstOnly {res.firstOnly}, secondOnly {res.secondOnly}")
    for r in res.rows:
        req(r.type == T.BOTH, "self-comparison-row-type", f"{what}: row typed {r.type}")
        for name in ("identity", "alignment1Coverage", "alignment2Coverage"):
            req(0 <= getattr(r, name) <= 1, "measure-out-of-range", f"{what} key {(r.queryId, r.referenceId)}: {name} = {getattr(r, name)}")
        if r.alignment1.alignedPairs:
            req(r.identity == 1 and r.alignment1Coverage == 1 and r.alignment2Coverage == 1, "self-comparison-not-perfect",
                f"{what} key {(r.queryId, r.referenceId)}: identity {r.identity}, coverages {r.alignment1Coverage}/{r.alignment2Coverage}")
            req(not r.alignment1ExclusivePairs and not r.alignment2ExclusivePairs, "self-comparison-exclusive-pairs",
                f"{what} key {(r.queryId, r.referenceId)} reports exclusive pairs")


def check_program(case):
    """the compare_alignments program itself: one benchmark reader (XMAP or simulation-data input) reads the two files and
    AlignmentComparer.compare runs on what it returns - a file compared with itself, and two files in both orders"""
    import io
    import os
    import shutil
    import tempfile
    from src import compare_alignments as ca
    from src.diagnostic.alignment_comparer import AlignmentRowComparisonResultType as T
    from vlib import cmap_text
    d = tempfile.mkdtemp(prefix="coma_c19_")
    opened = []
    try:
        rp, qp = os.path.join(d, "r.cmap"), os.path.join(d, "q.cmap")
        open(rp, "w").write(cmap_text.cmap_text(case["refs"]))
        open(qp, "w").write(cmap_text.cmap_text(case["queries"]))
        files = []
        for k, text in enumerate(case["files"]):
            fp = os.path.join(d, f"a{k}.{'sdata' if case['format'] == 'sdata' else 'xmap'}")
            open(fp, "w").write(text)
            files.append(fp)
        argv = [files[0], files[-1], "-r", rp, "-q", qp, "-o", os.path.join(d, "out.txt")]
        args = sut(ca.Args.parse, argv)
        opened = list(args.alignmentFiles) + [args.referenceFile, args.queryFile, args.outputFile]
        prog = sut(ca.Program, args)
        reader = sut(getattr(prog, "_Program__getBenchmarkReader"))
        n = {}
        for key in ("A", "B"):
            fp = files[0] if key == "A" else files[-1]
            with open(fp) as f:
                n[key] = sut(reader.read, f)
        with open(files[0]) as f:
            again = sut(reader.read, f)
        aa = sut(prog.comparer.compare, n["A"], again)
        reflexive(aa, T, "file compared with itself")
        ab = sut(prog.comparer.compare, n["A"], n["B"])
        ba = sut(prog.comparer.compare, n["B"], n["A"])
        ka = {(a.queryId, a.referenceId) for a in n["A"]}
        kb = {(a.queryId, a.referenceId) for a in n["B"]}
        req(ab.overlapping + ab.nonOverlapping + ab.firstOnly + ab.secondOnly == len(ka | kb), "keys-not-partitioned",
            f"program: {ab.overlapping}+{ab.nonOverlapping}+{ab.firstOnly}+{ab.secondOnly} != {len(ka | kb)} distinct keys")
        req((ab.firstOnly, ab.secondOnly) == (len(ka - kb), len(kb - ka)), "first-only-count", f"program: only-counts {(ab.firstOnly, ab.secondOnly)}, set differences {(len(ka - kb), len(kb - ka))}")
        req((ba.firstOnly, ba.secondOnly) == (ab.secondOnly, ab.firstOnly), "swap-only-counts", "program: only-counts not swapped")
        for f in list(args.alignmentFiles) + [args.referenceFile, args.queryFile]:
            f.seek(0)        # the harness has read them once already
        sut(prog.run)        # the whole program, writing its report
        rev = any(a.reverseStrand for a in n["A"])
        return {"nontrivial": bool(n["A"]) and rev, "classes": [case["format"], "reverse" if rev else "forward-only", f"alignments={min(len(n['A']), 3)}"]}
    finally:
        for f in opened:
            try:
                f.close()
            except Exception:  # noqa: BLE001
                pass
        shutil.rmtree(d, ignore_errors=True)


@st.composite
def program_case(draw):
    nr, nq = draw(st.integers(1, 2)), draw(st.integers(1, 4))
    refs, queries = [], []
    for i in range(nr):
        k = draw(st.integers(8, 30))
        lab = [float(1000 + 1000 * j + draw(st.integers(0, 400))) for j in range(k)]
        refs.append({"id": i + 1, "labels": lab, "length": lab[-1] + 500.0})
    for i in range(nq):
        k = draw(st.integers(3, 12))
        lab = [float(1000 * j + draw(st.integers(0, 300))) for j in range(k)]
        queries.append({"id": draw(st.sampled_from([i + 1, i + 11])), "labels": lab, "length": lab[-1] + 1.0})
    ids = set()
    queries = [q for q in queries if not (q["id"] in ids or ids.add(q["id"]))]
    fmt = draw(st.sampled_from(["sdata", "sdata", "xmap"]))

    def alignment_of(q):
        ref = draw(st.sampled_from(refs))
        n, m = len(q["labels"]), len(ref["labels"])
        rev = draw(st.booleans())
        start = draw(st.integers(0, max(0, m - n)))
        pairs = []          # (ref index0, query label 1-based)
        r = start
        for ql in range(1, n + 1):
            kind = draw(st.sampled_from(["tp", "tp", "tp", "fp", "double"]))
            if r >= m:
                kind = "fp"
            if kind == "fp":
                pairs.append((None, ql))
                continue
            pairs.append(((r,) if kind == "tp" or r + 1 >= m else (r, r + 1), ql))
            r += 1 if kind == "tp" or r + 1 >= m else 2
            r += draw(st.sampled_from([0, 0, 1]))
        return ref, rev, pairs

    def sdata(als):
        lines = ["#Fragment ID\tReference\tStrand\tStart\tStop\tSimuInfoDetail\tSize"]
        for q, (ref, rev, pairs) in als:
            detail = []
            seq = pairs if not rev else [(tuple(ref_idx[::-1]) if ref_idx else None, ql) for ref_idx, ql in pairs]
            if rev:   # on the reverse strand the reference indices descend along the query
                m = len(ref["labels"])
                seq = [((tuple(m - 1 - x for x in ref_idx)) if ref_idx else None, ql) for ref_idx, ql in pairs]
            for ref_idx, _ in seq:
                detail.append("FP" if not ref_idx else ",".join(f"{ref['id']}:{x}" for x in ref_idx))
            lines.append("\t".join([str(q["id"]), str(ref["id"]), "-" if rev else "+", "1000", "90000", ";".join(detail), str(int(q["length"]))]))
        return "\n".join(lines) + "\n"

    def xmap(als):
        lines = ["# XMAP File Version:\t0.2",
                 "#h XmapEntryID\tQryContigID\tRefContigID\tQryStartPos\tQryEndPos\tRefStartPos\tRefEndPos\tOrientation\tConfidence\tHitEnum\tQryLen\tRefLen\tLabelChannel\tAlignment",
                 "#f int\tint\tint\tfloat\tfloat\tfloat\tfloat\tstring\tfloat\tstring\tfloat\tfloat\tint\tstring"]
        for k, (q, (ref, rev, pairs)) in enumerate(als, 1):
            m = len(ref["labels"])
            pl = [((m - 1 - x) if rev else x, ql) for ref_idx, ql in pairs if ref_idx for x in ref_idx]
            pl.sort()
            if not pl:
                continue
            al = "".join(f"({r + 1},{ql})" for r, ql in pl)
            lines.append("\t".join([str(k), str(q["id"]), str(ref["id"]), "0.0", "1000.0", "1000.0", "9000.0", "-" if rev else "+", "10.00",
                                    f"{len(pl)}M", f"{q['length']:.1f}", f"{ref['length']:.1f}", "1", al]))
        return "\n".join(lines) + "\n"
    # every file holds at least one alignment (reading a file without records is the readers' business: C07 / C18)
    first = [(q, alignment_of(q)) for q in queries if draw(st.integers(0, 4)) > 0] or [(queries[0], alignment_of(queries[0]))]
    second = [x if draw(st.integers(0, 2)) > 0 else (x[0], alignment_of(x[0])) for x in first if draw(st.integers(0, 4)) > 0]
    second += [(q, alignment_of(q)) for q in queries if q["id"] not in {x[0]["id"] for x in first} and draw(st.booleans())]
    second = second or [first[0]]
    render = sdata if fmt == "sdata" else xmap
    return {"refs": refs, "queries": queries, "format": fmt, "files": [render(first), render(second)]}


@st.composite
def pairs_st(draw):
    n = draw(st.one_of(st.integers(0, 6), st.integers(0, 40), st.integers(0, 150)))
    r, q = draw(st.integers(1, 5)), draw(st.integers(1, 5))
    out = []
    for _ in range(n):
        out.append([r, q])
        step = draw(st.sampled_from([(1, 1), (1, 1), (1, 1), (2, 1), (1, 2), (1, 0), (3, 2), (0, 0), (0, 1)]))
        r += step[0]
        q += step[1]
    return out


@st.composite
def alignment_set(draw, base=None):
    out = []
    if base:
        for a in base:
            mode = draw(st.sampled_from(["copy", "drop", "perturb", "subset", "other-key"]))
            if mode == "drop":
                continue
            p = [list(x) for x in a["pairs"]]
            if mode == "perturb" and p:
                for j in set(draw(st.lists(st.integers(0, len(p) - 1), max_size=4))):
                    p[j] = [p[j][0] + draw(st.sampled_from([0, 1])), p[j][1] + draw(st.sampled_from([0, 1, -1]))]
            elif mode == "subset" and p:
                i = draw(st.integers(0, len(p) - 1))
                j = draw(st.integers(i, len(p)))
                p = p[i:j]
            b = dict(a, pairs=p)
            if mode == "other-key":
                b["r"] = draw(st.sampled_from([0, 1, 2, 3, 2 ** 32 + 1]))
            out.append(b)
    for _ in range(draw(st.integers(0, 3 if base is not None else 5))):
        out.append({"q": draw(st.sampled_from([0, 1, 2, 3, 4, 2 ** 53 + 1, 2 ** 53 + 3])), "r": draw(st.sampled_from([0, 1, 2, 3, 2 ** 32 + 1])),
                    "pairs": draw(pairs_st()), "rev": draw(st.booleans())})
    return out


@st.composite
def strategy(draw):
    a = draw(alignment_set())
    b = draw(alignment_set(base=a))
    return {"a": a, "b": b, "combine": draw(st.booleans())}


def subchecks(tier):
    q = tier == "quick"
    subs = [Sub("laws", "hyp", check, strategy=strategy, examples=24000 if q else 600000, shrink_budget=800,
                required_classes=("duplicated-query-label", "key-twice-in-one-set", "empty-alignment", "combine", "repeated-identical-pair"))]
    subs.append(Sub("long-lists", "hyp", check_long, strategy=long_case, examples=32 if q else 600, shrink_budget=6,
                    describe="alignments of 2100-4200 pairs sharing 1-3 pairs (identity below 0.0005): partition and bounds only"))
    subs.append(Sub("program", "hyp", check_program, strategy=program_case, examples=1600 if q else 40000, shrink_budget=200,
                    describe="the compare_alignments program on generated simulation-data (SDATA) and XMAP files: a file against itself, two files in both orders",
                    required_classes=("sdata", "xmap", "reverse")))
    if not q:
        subs.append(fuzz_variant(next(s for s in subs if s.name == "laws"), 40000))
    return subs
