"""C19 - alignment comparison partitions keys; measures are bounded, reflexive and swap-symmetric.

Target: AlignmentComparer.compare with AlignmentRowComparer (both combineMultipleQuerySources values).
Oracle: algebraic laws.
"""
from __future__ import annotations

from hypothesis import strategies as st

from vlib.core import fuzz_variant, Sub, req, sut

PROPERTY = "C19"
RULE = ("two alignment sets over a small key space (query ids 1-4 x reference ids 1-3, so keys collide and repeat), pair lists of "
        "0-150 pairs (<200: difflib's autojunk heuristic stays off) with duplicated query labels, duplicated reference labels and repeated identical pairs, the second set partly derived "
        "from the first (copies, subsets, perturbations), both combineMultipleQuerySources values.  non-trivial = both sets "
        "non-empty with >=1 shared and >=1 exclusive key; distinct = distinct case")
ASSUMPTIONS = ["pair lists shorter than 200 elements (difflib.SequenceMatcher autojunk is asymmetric by design above that)",
               "a key occurring twice inside one set counts once (the comparer keeps one alignment per key)",
               "average coverages are compared under swap only when both directions report the same overlapping rows"]


def build(al):
    from src.correlation.bionano_alignment import BionanoAlignment
    from src.diagnostic.benchmark_alignment import BenchmarkAlignedPair, BenchmarkAlignmentPosition
    out = []
    for n_, a in enumerate(al):
        pairs = [BenchmarkAlignedPair(BenchmarkAlignmentPosition(r, 0), BenchmarkAlignmentPosition(q, 0)) for r, q in a["pairs"]]
        out.append(BionanoAlignment(n_ + 1, a["q"], a["r"], 0, 0, 0, 0, a.get("rev", False), 1.0, "", 10, 10, pairs))
    return out


def keys(al):
    return {(a["q"], a["r"]) for a in al}


def check(case):
    from src.diagnostic.alignment_comparer import (AlignmentComparer, AlignmentRowComparer,
                                                  AlignmentRowComparisonResultType as T)
    A, B = case["a"], case["b"]
    comparer = AlignmentComparer(AlignmentRowComparer(case["combine"]))
    ab = sut(comparer.compare, build(A), build(B))
    ka, kb = keys(A), keys(B)
    union = ka | kb
    req(ab.overlapping + ab.nonOverlapping + ab.firstOnly + ab.secondOnly == len(union), "keys-not-partitioned",
        f"overlapping {ab.overlapping} + nonOverlapping {ab.nonOverlapping} + firstOnly {ab.firstOnly} + secondOnly {ab.secondOnly} != {len(union)} distinct keys")
    req(ab.firstOnly == len(ka - kb), "first-only-count", f"firstOnly {ab.firstOnly}, keys only in the first set {len(ka - kb)}")
    req(ab.secondOnly == len(kb - ka), "second-only-count", f"secondOnly {ab.secondOnly}, keys only in the second set {len(kb - ka)}")
    rk = [(r.queryId, r.referenceId) for r in ab.rows]
    req(sorted(rk) == sorted(union), "rows-do-not-cover-keys-once", f"row keys {sorted(rk)} vs distinct keys {sorted(union)}")
    for r in ab.rows:
        for name in ("identity", "alignment1Coverage", "alignment2Coverage"):
            v = getattr(r, name)
            req(0 <= v <= 1, "measure-out-of-range", f"key {(r.queryId, r.referenceId)}: {name} = {v}")
        if (r.queryId, r.referenceId) in ka & kb:
            req(r.type == T.BOTH, "row-type-wrong", f"key {(r.queryId, r.referenceId)} is in both sets but typed {r.type}")
            p1, p2 = set(r.alignment1.alignedPairs), set(r.alignment2.alignedPairs)
            req(set(r.alignment1ExclusivePairs) <= p1 - p2 and set(r.alignment2ExclusivePairs) <= p2 - p1, "exclusive-pairs-not-exclusive",
                f"key {(r.queryId, r.referenceId)}: a pair reported as exclusive to one alignment is not in it or is also in the other")
    for name in ("avgOverlappingAlignment1Coverage", "avgOverlappingAlignment2Coverage", "avgOverlappingIdentity"):
        req(0 <= getattr(ab, name) <= 1, "measure-out-of-range", f"{name} = {getattr(ab, name)}")
    # reflexivity
    aa = sut(comparer.compare, build(A), build(A))
    req(aa.firstOnly == 0 and aa.secondOnly == 0, "self-comparison-has-exclusive-keys", f"compare(A,A): firstOnly {aa.firstOnly}, secondOnly {aa.secondOnly}")
    for r in aa.rows:
        req(r.type == T.BOTH, "self-comparison-row-type", f"compare(A,A): row typed {r.type}")
        if r.alignment1.alignedPairs:
            req(r.identity == 1 and r.alignment1Coverage == 1 and r.alignment2Coverage == 1, "self-comparison-not-perfect",
                f"compare(A,A) key {(r.queryId, r.referenceId)}: identity {r.identity}, coverages {r.alignment1Coverage}/{r.alignment2Coverage}")
            req(not r.alignment1ExclusivePairs and not r.alignment2ExclusivePairs, "self-comparison-exclusive-pairs",
                f"compare(A,A) key {(r.queryId, r.referenceId)} reports exclusive pairs")
    # swap
    ba = sut(comparer.compare, build(B), build(A))
    req((ba.firstOnly, ba.secondOnly) == (ab.secondOnly, ab.firstOnly), "swap-only-counts", f"compare(A,B) only-counts {(ab.firstOnly, ab.secondOnly)}, compare(B,A) {(ba.firstOnly, ba.secondOnly)}")
    rab = {(r.queryId, r.referenceId): r for r in ab.rows if r.type == T.BOTH}
    rba = {(r.queryId, r.referenceId): r for r in ba.rows if r.type == T.BOTH}
    req(set(rab) == set(rba), "swap-both-keys", "compare(A,B) and compare(B,A) disagree on the keys present in both")
    for k, r in rab.items():
        s = rba[k]
        req((r.alignment1Coverage, r.alignment2Coverage) == (s.alignment2Coverage, s.alignment1Coverage), "swap-coverages",
            f"key {k}: coverages {(r.alignment1Coverage, r.alignment2Coverage)} vs swapped run {(s.alignment1Coverage, s.alignment2Coverage)}")
        req(set(r.alignment1ExclusivePairs) == set(s.alignment2ExclusivePairs) and set(r.alignment2ExclusivePairs) == set(s.alignment1ExclusivePairs),
            "swap-exclusive-pairs", f"key {k}: exclusive pairs are not swapped")
    if {k for k, r in rab.items() if r.overlapping} == {k for k, r in rba.items() if r.overlapping}:
        req(abs(ab.avgOverlappingAlignment1Coverage - ba.avgOverlappingAlignment2Coverage) <= 1e-12
            and abs(ab.avgOverlappingAlignment2Coverage - ba.avgOverlappingAlignment1Coverage) <= 1e-12, "swap-average-coverages",
            f"averages {(ab.avgOverlappingAlignment1Coverage, ab.avgOverlappingAlignment2Coverage)} vs swapped "
            f"{(ba.avgOverlappingAlignment1Coverage, ba.avgOverlappingAlignment2Coverage)}")
        req(ab.overlapping == ba.overlapping and ab.nonOverlapping == ba.nonOverlapping, "swap-overlap-counts", "overlapping/nonOverlapping counts change under swap")
    nt = bool(A) and bool(B) and bool(ka & kb) and bool(ka ^ kb)
    cl = ["combine" if case["combine"] else "plain"]
    if any(len({q for _, q in a["pairs"]}) < len(a["pairs"]) for a in A + B):
        cl.append("duplicated-query-label")
    if len(ka) < len(A) or len(kb) < len(B):
        cl.append("key-twice-in-one-set")
    if any(not a["pairs"] for a in A + B):
        cl.append("empty-alignment")
    if any(len({tuple(x) for x in a["pairs"]}) < len(a["pairs"]) for a in A + B):
        cl.append("repeated-identical-pair")
    return {"nontrivial": nt, "classes": cl}


@st.composite
def pairs_st(draw):
    n = draw(st.one_of(st.integers(0, 6), st.integers(0, 40), st.integers(0, 150)))
    r, q = draw(st.integers(1, 5)), draw(st.integers(1, 5))
    out = []
    for _ in range(n):
        out.append([r, q])
        step = draw(st.sampled_from([(1, 1), (1, 1), (1, 1), (2, 1), (1, 2), (1, 0), (3, 2), (0, 0), (0, 1)]))
        r += step[0]
        q += step[1]
    return out


@st.composite
def alignment_set(draw, base=None):
    out = []
    if base:
        for a in base:
            mode = draw(st.sampled_from(["copy", "drop", "perturb", "subset", "other-key"]))
            if mode == "drop":
                continue
            p = [list(x) for x in a["pairs"]]
            if mode == "perturb" and p:
                for j in set(draw(st.lists(st.integers(0, len(p) - 1), max_size=4))):
                    p[j] = [p[j][0] + draw(st.sampled_from([0, 1])), p[j][1] + draw(st.sampled_from([0, 1, -1]))]
            elif mode == "subset" and p:
                i = draw(st.integers(0, len(p) - 1))
                j = draw(st.integers(i, len(p)))
                p = p[i:j]
            b = dict(a, pairs=p)
            if mode == "other-key":
                b["r"] = draw(st.integers(1, 3))
            out.append(b)
    for _ in range(draw(st.integers(0, 3 if base is not None else 5))):
        out.append({"q": draw(st.integers(1, 4)), "r": draw(st.integers(1, 3)), "pairs": draw(pairs_st()), "rev": draw(st.booleans())})
    return out


@st.composite
def strategy(draw):
    a = draw(alignment_set())
    b = draw(alignment_set(base=a))
    return {"a": a, "b": b, "combine": draw(st.booleans())}


def subchecks(tier):
    q = tier == "quick"
    subs = [Sub("laws", "hyp", check, strategy=strategy, examples=24000 if q else 600000, shrink_budget=800,
                required_classes=("duplicated-query-label", "key-twice-in-one-set", "empty-alignment", "combine", "repeated-identical-pair"))]
    if not q:
        subs.append(fuzz_variant(next(s for s in subs if s.name == "laws"), 40000))
    return subs
