"""C11 - mirroring a query mirrors its first-pass alignment.

Metamorphic oracle on a coordinate lattice commensurate with both correlation resolutions; plus the
unit-level relation that chaining does not depend on the direction of query label numbers.
"""
from __future__ import annotations

import collections

from hypothesis import strategies as st

from checks import c14
from vlib import gen_maps, pipeline
from vlib.core import Sub, req, sut

PROPERTY = "C11"
RULE = ("lattice step L = k*lcm(r1, r2) (defaults 1400/100, also -r1 700/2800 with -r2 50/100/200); all reference and query "
        "coordinates multiples of L; queries = lattice windows with lattice noise (labels moved by one step, dropouts, extra labels, "
        "indels of 2-12 steps), -d < L/2, -ss 0/1, -sp 1000/2000, -p 8; the case and the case with every query mirrored are run in "
        "'separate' mode.  Queries whose seed selection or best candidate is tied (from the recorded messages) are counted as "
        "trivial.  non-trivial = compared query whose record has >=2 segments; distinct = distinct case")
ASSUMPTIONS = ["tie guard: a query is compared only if both runs start from the same seeds and secondary peaks on opposite strands "
               "(near-equal correlation heights are decided by FFT rounding) and the maximal candidate is unique in both",
               "Confidence compared within 0.011 (two-decimal text)"]


def mirror_query(q):
    lab = q["labels"]
    a, b = lab[0], lab[-1]
    return dict(q, labels=sorted(gen_maps.r1(a + b - p) for p in lab))


def query_state(run):
    """per first-pass query id: dict(seeds=[(ref id, reverse?, seed position, (secondary peak positions...))...] in index order,
    best=unique maximal candidate or None, tied=bool)"""
    from src.extensions.messages import AlignmentResultRowMessage, CorrelationResultMessage, InitialAlignmentMessage
    margin = int((run.case.get("args") or {}).get("-ma", 16000))
    first = {id(q): q.moleculeId for q in run.program.queryMaps}
    seeds = collections.defaultdict(list)
    cands = collections.defaultdict(list)
    prim = collections.defaultdict(dict)
    for m in run.messages:
        if isinstance(m, InitialAlignmentMessage):
            ia = getattr(m, "data", None)
            if ia is None:      # the message class keeps the correlation under some attribute: take the first that fits
                ia = next((v for v in vars(m).values() if hasattr(v, "reverseStrand") and hasattr(v, "query")), None)
            if ia is not None and id(ia.query) in first:
                corr = getattr(ia, "correlation", None)
                prim[first[id(ia.query)]][(ia.reference.moleculeId, bool(ia.reverseStrand))] = \
                    None if corr is None else [float(x) for x in corr]
        if isinstance(m, CorrelationResultMessage) and id(m.initialAlignment.query) in first:
            ra = m.refinedAlignment
            seeds[first[id(m.initialAlignment.query)]].append(
                (ra.reference.moleculeId, bool(ra.reverseStrand), int(ra.correlationStart) + margin,
                 tuple(sorted(int(p.position) for p in ra.peaks))))
        elif isinstance(m, AlignmentResultRowMessage) and id(m.query) in first:
            cands[first[id(m.query)]].append(m.alignment)
    out = {}
    for qid in first.values():
        rows = cands.get(qid, [])
        best, tied = None, False
        if rows:
            mx = max(r.confidence for r in rows)
            top = [r for r in rows if r.confidence >= mx - 1e-6]
            tied = len(top) > 1
            best = top[0]
        out[qid] = {"seeds": seeds.get(qid, []), "best": best, "tied": tied, "primary": prim.get(qid, {})}
    return out


def primaries_mirror(pa, pb):
    """the seeding correlations of the two runs are mirror images of each other: for every (reference, strand) searched
    in one run the other run searched (reference, other strand) and obtained the same correlation values (1e-9).  Then a
    difference in the seeds chosen can only come from how equal or nearly equal heights are ordered (a tie: not
    comparable).  If this does NOT hold - a strand was not searched at all, or the values differ - the difference is not
    a tie and the records are compared."""
    if {(r, not s) for r, s in pa} != set(pb):
        return False
    for (r, s), a in pa.items():
        b = pb[(r, not s)]
        if (a is None) != (b is None):
            return False
        if a is None:
            continue
        if len(a) != len(b) or any(abs(x - y) > 1e-9 * max(1.0, abs(x)) for x, y in zip(a, b)):
            return False
    return True


def seeds_correspond(sa, sb):
    """the mirrored run must start from the same seeds on the opposite strand; if it does not (near-equal correlation
    heights decided by FFT rounding) the two runs are not comparable"""
    fa = sorted((r, not rev, pos, sec) for r, rev, pos, sec in sa)
    fb = sorted(sb)
    return fa == fb


def check_pipeline(case):
    a = pipeline.run_case(case, mode="separate")
    if a.crashed:
        return {"nontrivial": False, "classes": ["pipeline-crash:" + a.crash_signature]}
    mcase = dict(case, queries=[mirror_query(q) for q in case["queries"]])
    b = pipeline.run_case(mcase, mode="separate")
    req(not b.crashed, "mirror-run-crashes", f"the mirrored input aborts: {b.crash_text}")
    sa, sb = query_state(a), query_state(b)
    ra = {int(r["QryContigID"]): r for r in a.files["main"]}
    rb = {int(r["QryContigID"]): r for r in b.files["main"]}
    cl = []
    nt = False
    for q in case["queries"]:
        qid = q["id"]
        if qid not in sa or qid not in sb:
            continue
        if sa[qid]["tied"] or sb[qid]["tied"]:
            cl.append("tied-skipped")
            continue
        if not seeds_correspond(sa[qid]["seeds"], sb[qid]["seeds"]):
            if primaries_mirror(sa[qid]["primary"], sb[qid]["primary"]):
                cl.append("seeds-differ-skipped")
                continue
            cl.append("seeds-differ-not-a-tie")
        n = len(q["labels"])
        x, y = ra.get(qid), rb.get(qid)
        req((x is None) == (y is None), "mirror-record-presence",
            f"query {qid}: first-pass record {'present' if x else 'absent'}, for its mirror image {'present' if y else 'absent'}")
        if x is None:
            cl.append("both-unaligned")
            continue
        cx, cy = float(x["Confidence"]), float(y["Confidence"])
        req(abs(cx - cy) <= 0.011, "mirror-confidence-differs", f"query {qid}: Confidence {x['Confidence']}, mirror image {y['Confidence']}")
        req(x["RefContigID"] == y["RefContigID"], "mirror-reference-differs", f"query {qid}: reference {x['RefContigID']} vs {y['RefContigID']}")
        req(x["Orientation"] != y["Orientation"], "mirror-orientation-same", f"query {qid}: orientation {x['Orientation']} for both the query and its mirror image")
        exp = [(r, n + 1 - k) for r, k in x["pairs"]]
        req(y["pairs"] == exp, "mirror-pairs-differ",
            lambda: f"query {qid} ({n} labels): mirror image reports {y['pairs'][:6]}.., expected {exp[:6]}.. (orientation {y['Orientation']})")
        best = sa[qid]["best"]
        nseg = sum(1 for s in best.segments if s.positions) if best is not None else 0
        cl.append(f"compared-segments={min(nseg, 3)}")
        if nseg >= 2:
            nt = True
    return {"nontrivial": nt, "classes": sorted(set(cl))}


@st.composite
def lattice_case(draw):
    r1_, r2_ = draw(st.sampled_from([(1400, 100), (1400, 100), (700, 100), (2800, 200), (1400, 50)]))
    base = r1_ if r1_ % r2_ == 0 else r1_ * r2_
    k = draw(st.sampled_from([1, 2, 3]))
    L = base * k
    d = draw(st.sampled_from([L // 2 - 100, L // 4, min(1500, L // 2 - 1)]))
    args = {"-d": max(1, d), "-p": 8}
    if (r1_, r2_) != (1400, 100):
        args.update({"-r1": r1_, "-r2": r2_})
        if r1_ > 20000:
            args["-md"] = r1_
    if draw(st.booleans()):
        args["-ss"] = 1
    if draw(st.booleans()):
        args["-sp"] = 2000
    if draw(st.booleans()):
        args["-sj"] = 0.5
    nr = draw(st.integers(1, 2))
    rids = draw(st.lists(st.integers(1, 99), min_size=nr, max_size=nr, unique=True))
    refs = []
    for rid in rids:
        n = draw(st.integers(20, 70))
        if draw(st.integers(0, 4)) == 0:
            # densely labelled stretch: every gap at most three lattice steps, so that the blurred seeding image is a
            # solid run of set bins (strand-symmetric although the labels are not) - added after seeded change C11-5
            steps = draw(st.lists(st.integers(1, 3), min_size=n - 1, max_size=n - 1))
        else:
            steps = draw(st.lists(st.one_of(st.integers(1, 8), st.integers(1, 20)), min_size=n - 1, max_size=n - 1))
            steps = [s + ((j * 5) % 4) for j, s in enumerate(steps)]
        lab = [L * draw(st.integers(0, 10))]
        for s in steps:
            lab.append(lab[-1] + s * L)
        refs.append({"id": rid, "labels": [float(x) for x in lab], "length": float(lab[-1] + L * draw(st.integers(0, 5)))})
    nq = draw(st.integers(1, 4))
    qids = draw(st.lists(st.integers(1, 9999), min_size=nq, max_size=nq, unique=True))
    queries = []
    for qid in qids:
        ref = refs[draw(st.integers(0, nr - 1))]
        n = len(ref["labels"])
        kk = draw(st.integers(min(12, n), min(35, n)))
        i = draw(st.integers(0, n - kk))
        pos = [int(p - ref["labels"][i]) for p in ref["labels"][i:i + kk]]
        noise = draw(st.sampled_from(["none", "noisy", "indel", "indel", "indel", "both"]))
        if noise in ("noisy", "both"):
            for j in set(draw(st.lists(st.integers(1, kk - 2), max_size=3))):
                pos[j] += L * draw(st.sampled_from([-1, 1]))
            drop = set(draw(st.lists(st.integers(1, kk - 2), max_size=3)))
            pos = [p for j, p in enumerate(pos) if j not in drop]
            pos += [L * draw(st.integers(1, max(1, pos[-1] // L - 1))) for _ in range(draw(st.integers(0, 2)))]
        if noise in ("indel", "both") and len(pos) >= 6:
            pos = sorted(set(pos))
            j = draw(st.integers(min(5, len(pos) // 2), len(pos) - min(5, len(pos) // 2)))
            sh = L * draw(st.one_of(st.integers(2, 3), st.integers(2, max(2, min(12, 14000 // L))))) * draw(st.sampled_from([1, -1]))
            if sh < 0:
                room = (pos[j] - pos[j - 1]) // L - 1
                sh = -L * min(-sh // L, max(0, room))
            pos = pos[:j] + [p + sh for p in pos[j:]]
        pos = sorted(set(p for p in pos if p >= 0))
        if draw(st.booleans()):
            pos = [pos[-1] - p for p in pos[::-1]]
        off = L * draw(st.integers(0, 6))
        lab = [float(p - pos[0] + off) for p in pos]
        queries.append({"id": qid, "labels": lab, "length": float(lab[-1] + L * draw(st.integers(0, 3)) + 1),
                        "truth": {"kind": "lattice-" + noise, "ref": ref["id"], "L": L}})
    return {"refs": refs, "queries": queries, "mode": "separate", "args": args}


def check_unit(case):
    """chaining and the join score do not depend on whether query label numbers ascend or descend"""
    from src.alignment.segment_chainer import SegmentChainer, SequentialityScorer
    scorer = SequentialityScorer(case["mult"], case["ss"])
    res = {}
    objs = {}
    for rev in (False, True):
        c = dict(case, reverse=rev)
        o = c14.build_segments(c)
        objs[rev] = o
        out = sut(SegmentChainer(scorer).chain, list(o))
        idx = {id(x): i for i, x in enumerate(o)}
        res[rev] = [idx[id(x)] for x in out]
    req(res[False] == res[True], "chain-depends-on-label-direction",
        f"chain over the same geometry selects {res[False]} with ascending and {res[True]} with descending query label numbers")
    ne = [i for i, s in enumerate(case["segments"]) if s is not None]
    for i in ne[:6]:
        for j in ne[:6]:
            if i != j and c14.key_of(case["segments"][i]) <= c14.key_of(case["segments"][j]):
                a = sut(scorer.getScore, objs[False][i], objs[False][j])
                b = sut(scorer.getScore, objs[True][i], objs[True][j])
                req(a == b, "join-score-depends-on-label-direction", f"getScore {a} (ascending) vs {b} (descending query label numbers) for {case['segments'][i]} -> {case['segments'][j]}")
    return {"nontrivial": len(res[False]) >= 2, "classes": [f"chainlen={min(len(res[False]), 4)}"]}


def subchecks(tier):
    q = tier == "quick"
    return [
        Sub("pipeline-mirror", "hyp", check_pipeline, strategy=lattice_case, examples=500 if q else 12000, shrink_budget=60,
            sample_filter=gen_maps.short_case, required_classes=("compared-segments=2",)),
        Sub("chainer-direction", "hyp", check_unit, strategy=lambda: c14.seg_set(8), examples=20000 if q else 400000, shrink_budget=800),
    ]
